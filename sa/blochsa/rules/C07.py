"""C07 — classical evaluation agrees with the documented semantics (control skeleton only)."""
from .. import sx as SX
from ..facts import AnalysisBroken
from ..roles import Roles
from ..kdiv import cmp_with_const

EXPLANATION = (
    "Only the control skeleton of the evaluator is decided: (R07.1) handler exhaustiveness — every concrete statement class of the syntax "
    "tree has a dynamic_cast branch in exec, every concrete expression class one in eval and in the parser's expression cloner (a node "
    "kind without a branch silently evaluates to nothing); (R07.2) return unwinding — every loop that executes statements tests the "
    "return flag after each statement and leaves on it, and every activation (function, method, constructor body, destructor) saves the "
    "flag, clears it before running the body and restores it on all normal paths; (R07.3) every scope opened by the statement/call "
    "machinery is closed on every normal path; (R07.4) every subscript of a value array by a "
    "computed index is dominated by the `i < 0 || i >= size` test on the same container (or is the induction variable of a loop bounded "
    "by that container's size), and `/`/`%` are dominated by their zero tests; (R07.5) `/` yields the Float tag on every path; (R07.6) in the binary-operator cascade an "
    "operation on the double-converted operands is reached only under the has-a-float-operand guard (or in `/`), an operation on the "
    "64-bit integer operands only under its negation (or in `%`), and Float/Long/Int result tags sit under the matching guards — "
    "comparing or adding two longs through double silently loses precision above 2^53. Values "
    "and result types of the operator cascade (8×8×20 combinations), formatting and casts are a differential property against a "
    "reference interpreter and are NOT decided.")


def run(prog, chk):
    R = Roles(prog)
    chk.rule('R07.1', 'every concrete Statement/Expression class has a handler branch in exec/eval (and in the parser\'s cloner)')
    chk.rule('R07.2', 'return unwinding: statement loops test the flag after each statement; activations save/clear/restore it')
    chk.rule('R07.4', 'computed subscripts of value arrays are dominated by the bounds test on the same container; / and % by zero tests')
    chk.rule('R07.5', 'the `/` branch returns a Float-tagged value on every path')
    chk.rule('R07.7', 'result type of every binary operator on every pair of scalar operand types equals the documented table (abstract evaluation of the cascade over type tags)')
    chk.rule('R07.8', 'explicit casts between int, long, float and bit: result type is the target; float→integer truncates toward zero; →bit is 1 iff non-zero')
    chk.rule('R07.9', 'unary - ! ~ and postfix ++/--: documented result type and value; postfix yields the old value and stores old±1')
    chk.rule('R07.6', 'numeric routing: double arithmetic only when an operand is float, integer arithmetic only when none is; result tags follow the same guards')
    ex, ev = R.ev_method('exec'), R.ev_method('eval')
    recs = prog.facts.records

    def concrete(base):
        out = []
        for r in prog.facts.subclasses(base):
            if not r.get('abstract') and r['name'].startswith('bloch::compiler::'):
                out.append(r['name'])
        return sorted(out)
    stmts = concrete('bloch::compiler::Statement')
    exprs = concrete('bloch::compiler::Expression')
    chk.count('concrete statement classes', len(stmts), 12)
    chk.count('concrete expression classes', len(exprs), 18)

    def handled(f):
        return {n['type'].replace(' *', '').replace('const ', '').strip() for n in SX.walk(f.body) if n['k'] == 'dyncast'}
    he, hv = handled(ex), handled(ev)
    for s in stmts:
        chk.ob('R07.1', ex, ex.ln, s in he or s in hv and False, 'statement class %s has a handler branch in exec' % s.split('::')[-1], key='exec:' + s.split('::')[-1], nontrivial=False)
    for e in exprs:
        chk.ob('R07.1', ev, ev.ln, e in hv, 'expression class %s has a handler branch in eval' % e.split('::')[-1], key='eval:' + e.split('::')[-1], nontrivial=False)
    cl = prog.fn('Parser::cloneExpression')
    hc = handled(cl)
    for e in exprs:
        chk.ob('R07.1', cl, cl.ln, e in hc, 'expression class %s can be cloned by the parser (multi-declarations and desugaring copy initialisers)' % e.split('::')[-1],
               key='clone:' + e.split('::')[-1], nontrivial=False)

    # ---- R07.2 ---------------------------------------------------------------------------------
    flag = [f['name'] for f in R.ev['fields'] if f['type'] == 'bool' and 'return' in f['name'].lower()]
    if len(flag) != 1:
        raise AnalysisBroken('return flag not resolved')
    flag = flag[0]
    nloops = 0
    nact = 0
    for f in [x for x in R.ev_methods() if x.body]:
        g = None
        for lp in SX.walk(f.body, into_lambdas=False):
            if lp['k'] not in ('for', 'forrange', 'while', 'do'):
                continue
            execs = [n for n in SX.walk(lp['body'], into_lambdas=False) if n['k'] == 'mcall' and n['callee'] == ex.name]
            # only the innermost loop around each exec call
            inner_loops = [x for x in SX.walk(lp['body'], into_lambdas=False) if x['k'] in ('for', 'forrange', 'while', 'do')]
            execs = [e for e in execs if not any(any(y is e for y in SX.walk(il['body'], into_lambdas=False)) for il in inner_loops)]
            if not execs:
                continue
            g = g or prog.cfg(f)
            head = [n for n in g.nodes if n.kind == 'loophead' and n.e is lp]
            if not head:
                continue
            for e in execs:
                nloops += 1
                node = [n for n in g.nodes if n.e is e]
                tests = [c for c in g.nodes if c.kind == 'cond' and SX.is_this_member(SX.strip(c.e), flag)]
                # from the exec call, the loop head can only be reached again through a test of the flag …
                r = g.reachable(node, avoid=tests)
                back = head[0].id in r
                # … and nothing is evaluated in between (a for-loop's increment after `return` would run user code once more and
                # overwrite the pending return value)
                entry_names = {x.name for x in (ex, ev)} | {x.name for x in R.ev_methods() if x.short in ('call', 'callMethod')}
                between = [c for c in g.calls(lambda x: x['k'] == 'mcall' and x.get('callee') in entry_names) if c.id in r and c not in node]
                if between:
                    back = True
                # … whose true edge leaves the loop
                leaves = all(head[0].id not in g.reachable([t.succ[0]], avoid=[x for x in g.nodes if x.kind == 'loophead' and x is not head[0] and g.dominates(x, head[0])]) or
                             _exits_loop(g, t.succ[0], head[0]) for t in tests if node and t.id in g.reachable(node))
                chk.ob('R07.2', f, e.get('ln', f.ln), (not back) and leaves and bool(tests),
                       'after each executed statement the loop tests %s and leaves on it (otherwise statements after `return` keep running)' % flag, key='loop:%s:%s' % (f.short, _loop_kind(lp)))
        # activations: functions that bind parameters / this and run a body
        if f.short in ('call', 'callMethod', 'runConstructorChain', 'destroyObject'):
            g = g or prog.cfg(f)
            execs = [c for c in g.calls(lambda e: e['k'] == 'mcall' and e['callee'] == ex.name)]
            nact += 1
            if not execs:
                chk.ob('R07.2', f, f.ln, False, '%s executes the statements of the body it activates (no reachable exec call found)' % f.short, key='activation:' + f.short)
                continue
            saves = [d for d in g.nodes if d.kind == 'decl' and d.e.get('type') == 'bool' and SX.is_this_member(SX.strip(d.e.get('init')), flag)]
            clears = [n for n, l, r, op in g.writes() if SX.is_this_member(SX.strip(l), flag) and SX.is_node(SX.strip(r)) and SX.strip(r).get('k') == 'bool' and not SX.strip(r)['v']]
            restores = [n for n, l, r, op in g.writes() if SX.is_this_member(SX.strip(l), flag) and SX.is_node(SX.strip(r)) and SX.strip(r).get('k') == 'ref'
                        and any(SX.strip(r).get('id') == d.e['id'] for d in saves)]
            ok_save = bool(saves) and all(g.must_precede(saves, x) for x in execs)
            ok_clear = bool(clears) and all(g.must_precede(clears, x) for x in execs)
            ok_rest = bool(restores) and all(g.must_follow(x, restores) for x in execs)
            # the same discipline written as a scope guard (constructor saves and clears, destructor restores)
            from ..kguard import virtual_writes
            gd = [n for n, m_, v_, rst in virtual_writes(prog, f, g) if m_ == flag and rst and SX.is_node(SX.strip(v_)) and SX.strip(v_).get('k') == 'bool' and not SX.strip(v_)['v']]
            if gd and all(g.must_precede(gd, x) for x in execs):
                ok_save = ok_clear = ok_rest = True
            chk.ob('R07.2', f, f.ln, ok_save and ok_clear and ok_rest,
                   '%s: return flag saved (%s), cleared before the body (%s), restored on every normal path (%s)' % (f.short, ok_save, ok_clear, ok_rest), key='activation:' + f.short)
            # an activation whose result is the return-value register clears the register before the body: a body that ends
            # without `return` must yield nothing, not the value left behind by an earlier call
            rv = [x['name'] for x in R.ev['fields'] if x['type'].endswith('Value') and 'return' in x['name'].lower()]
            if len(rv) == 1 and f.ret and f.ret.endswith('Value'):
                rets = [x for x in g.nodes if x.kind == 'return' and SX.is_node(x.e.get('e'))]
                reads = [d for d in g.nodes if d.kind == 'decl' and SX.is_this_member(SX.strip(d.e.get('init')), rv[0])]
                if reads:
                    clr = [n for n, l, r, op in g.writes() if SX.is_this_member(SX.strip(l), rv[0]) and SX.is_node(SX.strip(r)) and
                           SX.strip(r).get('k') in ('initlist', 'construct') and not SX.real_args(SX.strip(r)) and not (SX.strip(r).get('items') or [])]
                    okc = bool(clr) and all(g.must_precede(clr, x) for x in execs)
                    chk.ob('R07.2', f, f.ln, okc, '%s clears the return-value register before running the body (a body without `return` yields an empty value, not a stale one)' % f.short,
                           key='activation-value:' + f.short)
    chk.count('statement-executing loops', nloops, 6)
    # ---- R07.3 block/for/call scopes are closed on every normal path (a `return` that jumps past endScope leaves the callee's
    # scope on the stack: the caller then reads the dead callee's same-named variables) ----------------------------------
    scope_pairing(prog, chk, R, 'R07.3')
    chk.count('activation functions', nact, 4)

    value_array_subscripts(prog, chk, R, 'R07.4')
    # ---- R07.10: the value of an expression depends on the program state only ----------------------
    # no variable with static storage duration in the evaluator's sources is mutable (a formatting stream kept between calls
    # carries `fixed`/precision from one echoed value into the next; a cached result survives a shot).  Same rule as C18's R18.2,
    # restricted to the evaluator and the simulator.
    chk.rule('R07.10', 'no mutable static or thread-local storage in the evaluator: evaluation depends on the program state only')
    chk.rule('R07.11', 'an int bound to a slot declared long is widened at every binding site (declarations, parameters, returns, field stores, assignments)')
    _declared_long_rule(prog, chk, R)
    # the binding sites themselves — declarations with an initialiser, parameter binding, returned values, stores into typed slots — are the
    # ones C08's R08.4 enumerates: each hands its value to a class-stamping (hence widening) function.  Run here too: a `-> long` function
    # whose result is not stamped hands back an int, and `side(100000) * side(100000)` wraps at 32 bits
    from .C08 import _static_stamps
    _static_stamps(prog, chk, R, R.ev_method('exec'), R.ev_method('eval'), rule='R07.11')
    nst = 0
    for key, gl in prog.facts.globals.items():
        if not (gl['file'].endswith('runtime_evaluator.cpp') or gl['file'].endswith('runtime_evaluator.hpp')):
            continue
        nst += 1
        ok = gl['const'] or ('lambda at' in gl['type'] and SX.is_node(gl.get('init')) and gl['init'].get('k') == 'lambda' and not gl['init'].get('captures') and not gl['init'].get('defcap'))
        chk.ob('R07.10', gl['name'], '%s:%s' % (prog.rel(gl['file']), gl['ln']), ok,
               'static-storage variable %s in the evaluator must be constant%s' % (gl['name'].split('::')[-1], '' if ok else ' (it keeps state from one evaluation to the next)'),
               key='static:' + gl['name'].split('::')[-1], nontrivial=not gl['const'])
    chk.count('static-storage variables in the evaluator', nst, 2)
    # / by zero test (floating division in the `/` branch)
    ev_top = ev
    ev = _handler(prog, ev_top, 'BinaryExpression')[0]       # eval itself, or the helper the binary handler forwards to
    g = prog.cfg(ev)
    divs = [n for n in SX.walk(ev.body, into_lambdas=False) if n['k'] == 'bin' and n['op'] == '/' and n.get('t') == 'double' and SX.strip(n['r']).get('k') == 'ref']
    nd = 0
    for n in divs:
        node = _node_containing(g, n)
        d = SX.show(SX.strip(n['r']))
        if node is None:
            continue
        # only the language-level division: guarded by op == "/"
        if not any(pol and '"/"' in SX.show(ce) for ce, pol, _ in g.guards(node)):
            continue
        nd += 1
        ok = any((cmp_with_const(ce, d) == ('==', 0) and not pol) or (cmp_with_const(ce, d) == ('!=', 0) and pol) for ce, pol, _ in g.guards(node))
        chk.ob('R07.4', ev, n.get('ln', ev.ln), ok, 'division by %s is dominated by the zero test that raises "division by zero"' % d, key='div-zero')
        # R07.5 the enclosing return builds a Float
        ret = node if node.kind == 'return' else None
        txt = SX.show(node.e.get('e') if node.kind == 'return' else node.e)
        chk.ob('R07.5', ev, n.get('ln', ev.ln), 'Float' in txt, '`/` returns a Float-tagged value: %s' % txt[:60], key='div-float')
    chk.count('language-level divisions', nd, 0)      # (a cascade of another shape is decided by the zero-divisor rows of the operator table)
    ev = ev_top

    # ---- R07.6 numeric routing of the binary-operator cascade ----------------------------------------
    chk.rule('R07.13', 'constants folded by the analyser have the value the evaluator computes (`/` is a float division)')
    _const_folder_division(prog, chk)
    chk.rule('R07.12', 'each sub-expression is evaluated at most once per evaluation of its parent')
    _evaluated_once(prog, chk, R)
    _tag_table(prog, chk, ev)
    _cast_table(prog, chk, ev)
    _unary_table(prog, chk, ev)
    _routing(prog, chk, ev)




def _evaluated_once(prog, chk, R):
    """R07.12 — evaluating an expression evaluates each of its sub-expressions at most once: on no path through a handler is the same child
    link handed to eval/exec by two different calls — the same member link twice, the same constant element twice, or a constant element
    `C[k]` and a loop over all of C (the untyped array literal used to evaluate its first element once to find the array kind and again
    in the element loop: `sum({next(), 2})` called next() twice, `f({measure a, measure b})` measured a twice).  Re-evaluation by the
    *same* call (a loop condition, an update clause) is iteration, not duplication."""
    from ..kdiv import int_const
    names = (R.ev_method('eval').name, R.ev_method('exec').name)

    def unget(e):
        e = SX.strip(e)
        while SX.is_node(e) and e.get('k') == 'mcall' and SX.short(e.get('callee', '')) == 'get' and not SX.real_args(e):
            e = SX.strip(e.get('obj'))
        return e

    def classify(x, loops):
        x = unget(x)
        if not SX.is_node(x):
            return None
        if x.get('k') == 'ref' and x.get('id') in loops:
            return ('loop', loops[x['id']], None)
        if x.get('k') == 'index':
            k = int_const(x.get('i'))
            return ('elem', SX.show(unget(x['base'])), k if k is not None else SX.show(x['i']))
        if x.get('k') == 'member':
            return ('child', SX.show(x), None)
        return None

    def skips_first(lam, prm, call_node_e):
        """the closure evaluates its parameter only when it is not the first element of container C: `&p == &C.front() ? first : eval(p.get())`
        → text of C, else None"""
        for c in SX.walk(lam.body, into_lambdas=False):
            if c.get('k') not in ('cond', 'if'):
                continue
            cp = SX.cmp_parts(c.get('c'))
            if not cp or cp[0] not in ('==', '!='):
                continue
            sides = [SX.strip(cp[1]), SX.strip(cp[2])]
            if not all(SX.is_node(s_) and s_.get('k') == 'un' and s_.get('op') == '&' for s_ in sides):
                continue
            inner = [SX.strip(s_['e']) for s_ in sides]
            pr = [i_ for i_ in inner if i_.get('k') == 'ref' and i_.get('id') == prm['id']]
            fr = [i_ for i_ in inner if (i_.get('k') == 'mcall' and SX.short(i_.get('callee', '')) == 'front') or (i_.get('k') == 'index' and int_const(i_.get('i')) == 0)]
            if len(pr) != 1 or len(fr) != 1:
                continue
            branch = (c.get('f') if cp[0] == '==' else c.get('t')) if c.get('k') == 'cond' else (c.get('e') if cp[0] == '==' else c.get('t'))
            other = (c.get('t') if cp[0] == '==' else c.get('f')) if c.get('k') == 'cond' else (c.get('t') if cp[0] == '==' else c.get('e'))
            ev_in = lambda b: SX.is_node(b) and any(y.get('k') == 'mcall' and y.get('callee') in names for y in SX.walk(b, into_lambdas=False))
            if ev_in(branch) and not ev_in(other):
                return SX.show(unget(fr[0].get('obj') if fr[0].get('k') == 'mcall' else fr[0].get('base')))
        return None
    n = 0
    for f in [x for x in R.ev_methods() if x.body]:
        loops = {}
        for lp in SX.walk(f.body, into_lambdas=False):
            if lp.get('k') == 'forrange' and SX.is_node(lp.get('var')) and lp['var'].get('id'):
                loops[lp['var']['id']] = SX.show(unget(lp['range']))
        g = None
        sites = []
        direct = [x for x in SX.walk(f.body, into_lambdas=False) if x.get('k') == 'mcall' and x.get('callee') in names]
        closure_calls = [(x, prog.closure_target(x, f)) for x in SX.walk(f.body, into_lambdas=False) if x.get('k') == 'opcall' and x.get('op') == '()']
        closure_calls = [(x, lam) for x, lam in closure_calls if lam is not None and lam.body]
        if not direct and not closure_calls:
            continue
        g = prog.cfg(f)

        def node_of(x):
            for cn in g.nodes:
                if cn.e is x:
                    return cn
            for cn in g.nodes:
                e_ = cn.e.get('init') if cn.kind == 'decl' and SX.is_node(cn.e) else (cn.e.get('e') if cn.kind == 'return' and SX.is_node(cn.e) else cn.e)
                if SX.is_node(e_) and any(y is x for y in SX.walk(e_, into_lambdas=False)):
                    return cn
            return None
        for x in direct:
            a = SX.real_args(x)
            c_ = classify(a[0], loops) if a else None
            cn = node_of(x)
            if c_ and cn is not None:
                sites.append((cn, c_[0], c_[1], c_[2], None))
        for x, lam in closure_calls:
            # a local closure that hands its own parameter to eval/exec evaluates the argument it is called with
            for pi_, prm in enumerate(lam.params):
                evs = [y for y in SX.walk(lam.body, into_lambdas=False) if y.get('k') == 'mcall' and y.get('callee') in names and SX.real_args(y)
                       and (lambda a0: SX.is_node(a0) and a0.get('k') == 'ref' and a0.get('id') == prm['id'])(unget(SX.real_args(y)[0]))]
                args = SX.real_args(x)[1:]
                if not evs or pi_ >= len(args):
                    continue
                c_ = classify(args[pi_], loops)
                cn = node_of(x)
                if c_ and cn is not None:
                    sites.append((cn, c_[0], c_[1], c_[2], skips_first(lam, prm, x)))
        n += len(sites)
        bad = []
        for c1, k1, key1, x1, s1 in sites:
            r = g.reachable([c1])
            for c2, k2, key2, x2, s2 in sites:
                if c2 is c1 or c2.id not in r or key1 != key2:
                    continue
                if k1 == 'child' and k2 == 'child':
                    bad.append((c1, c2, key1))
                elif k1 == 'elem' and k2 == 'elem' and x1 == x2:
                    bad.append((c1, c2, '%s[%s]' % (key1, x1)))
                elif {k1, k2} == {'elem', 'loop'}:
                    idx, skip = (x1, s2) if k1 == 'elem' else (x2, s1)
                    if not (idx == 0 and skip == key1):
                        bad.append((c1, c2, '%s[%s]' % (key1, idx)))
        seen = set()
        for c1, c2, what in bad:
            if what in seen:
                continue
            seen.add(what)
            chk.ob('R07.12', f, c2.ln or f.ln, False, '%s is evaluated at line %s and again at line %s on the same path: its side effects (a call, a measurement, ++) happen twice'
                   % (what, c1.ln, c2.ln), key='once:%s:%s' % (f.short, what[:30]))
        if not bad:
            chk.ob('R07.12', f, f.ln, True, '%s: no child link is handed to eval/exec by two calls on one path (%d evaluation sites)' % (f.short, len(sites)), key='once:' + f.short, nontrivial=False)
    chk.count('sub-expression evaluation sites', n, 40)



def _const_folder_division(prog, chk):
    """R07.13 — a constant the analyser folds has the value the evaluator computes: the language's `/` yields a float (docs/casting.md), so
    the constant-integer folder may return the C++ integer quotient for `/` only where the division is exact (a dominating test that the
    remainder is zero).  Elsewhere the folded size of `int[k] a;` differs from the value `k` has when the program runs
    (`final int k = (int)(7 / 2 * 2);` — folded 6, evaluated 7)."""
    fs = [f for f in prog.functions if f.body and f.file.endswith('semantic_analyser.cpp') and 'optional<int>' in (f.ret or '') and f.params and 'Expression' in f.params[0]['type']
          and any(c.get('k') == 'mcall' and c.get('callee') == f.name for c in SX.walk(f.body, into_lambdas=False))]
    if len(fs) != 1:
        raise AnalysisBroken('constant-integer folder of the analyser not found uniquely (%d)' % len(fs))
    f = fs[0]
    g = prog.cfg(f)
    n = 0
    for rn in g.nodes:
        if rn.kind != 'return' or not SX.is_node(rn.e.get('e')):
            continue
        divs = [x for x in SX.walk(rn.e['e'], into_lambdas=False) if x.get('k') == 'bin' and x.get('op') == '/' and (x.get('t') or '') in ('int', 'long', 'long long')]
        if not divs:
            continue
        if not any(pol and '"/"' in SX.show(ce) for ce, pol, _ in g.guards(rn)):
            continue
        n += 1
        l_, r_ = SX.show(SX.strip(divs[0]['l'])), SX.show(SX.strip(divs[0]['r']))
        exact = False
        for ce, pol, _ in g.guards(rn):
            cp = SX.cmp_parts(ce)
            if not cp or cp[0] not in ('==', '!='):
                continue
            for a_, b_ in ((cp[1], cp[2]), (cp[2], cp[1])):
                a0, b0 = SX.strip(a_), SX.strip(b_)
                if SX.is_node(a0) and a0.get('k') == 'bin' and a0.get('op') == '%' and SX.show(SX.strip(a0['l'])) == l_ and SX.show(SX.strip(a0['r'])) == r_ \
                        and SX.is_node(b0) and b0.get('k') == 'int' and b0.get('v') == 0 and ((cp[0] == '==') == bool(pol)):
                    exact = True
        chk.ob('R07.13', f, rn.ln or f.ln, exact,
               'the constant folder returns the integer quotient %s / %s for the language\'s `/`, which the evaluator computes as a float: equal only when the division is exact '
               '(no dominating remainder test) — `final int k = (int)(7 / 2 * 2); int[k] a;` declares 6 elements while k is 7 at run time' % (l_, r_), key='const-fold:/')
    chk.count('integer quotients returned by the constant folder', n, 0)


def scope_pairing(prog, chk, R, rule):
    """block / for / call scopes are closed on every normal path (also run by C09 as R09.3: a scope left on the stack exposes the dead callee's
    variables to its caller — the by-name walk meets them first)"""
    chk.rule(rule, 'every scope opened while executing a statement or a call is closed on every normal path of the same function')
    nb = 0
    for f in [x for x in R.ev_methods() if x.body]:
        if not any(n['k'] == 'mcall' and SX.short(n['callee']) == 'beginScope' for n in SX.walk(f.body, into_lambdas=False)):
            continue
        g = prog.cfg(f)
        begins = [c for c in g.calls(lambda e: e['k'] == 'mcall' and e['callee'] == R.ev['name'] + '::beginScope')]
        ends = [c for c in g.calls(lambda e: e['k'] == 'mcall' and e['callee'] == R.ev['name'] + '::endScope')]
        for i, b in enumerate(begins):
            nb += 1
            chk.ob(rule, f, b.ln, bool(ends) and g.must_follow(b, ends), 'the scope opened in %s is closed on every normal path (including a `return` taken inside a loop body)' % f.short,
                   key='scope:%s#%d' % (f.short, i))
        for i, e_ in enumerate(ends):
            chk.ob(rule, f, e_.ln, bool(begins) and g.must_precede(begins, e_), 'the scope closed in %s was opened in the same function on every path (otherwise the caller\'s scope is popped)' % f.short,
                   key='scope-end:%s#%d' % (f.short, i), nontrivial=False)
    for f in [x for x in R.ev_methods() if x.body]:
        # closes without any opening in the function
        if any(n['k'] == 'mcall' and SX.short(n['callee']) == 'endScope' for n in SX.walk(f.body, into_lambdas=False)) and \
                not any(n['k'] == 'mcall' and SX.short(n['callee']) == 'beginScope' for n in SX.walk(f.body, into_lambdas=False)) and f.short not in ('endScope',):
            chk.ob(rule, f, f.ln, False, '%s closes a scope it never opened' % f.short, key='scope-end-only:' + f.short)
    chk.count('scope openings', nb, 5)


def value_array_subscripts(prog, chk, R, rule):
    """R07.4 (also run by C12 as part of R12.12): every computed subscript of a value array is dominated by the bounds test on the
    same container — see the rule text in run()"""
    # ---- R07.4 subscripts ------------------------------------------------------------------------
    nsub = 0
    from ..kcanon import Canon
    ltabs = _length_tables(prog)
    local_fns = [x for x in prog.functions if x.body and x.kind == 'function' and not x.cls and x.file.endswith('runtime_evaluator.cpp')]
    deferred = set()
    for f in [x for x in R.ev_methods() if x.body] + local_fns:
        if not any(n['k'] == 'index' and SX.is_node(SX.strip(n.get('base'))) and SX.strip(n['base']).get('k') == 'member' and SX.strip(n['base'])['name'].endswith('Array')
                   for n in SX.walk(f.body, into_lambdas=False)):
            continue
        g = prog.cfg(f)
        canon = Canon(prog, f)
        # locals that hold the length of a container and are never written again
        written = {SX.strip(w_[0]).get('id') for x_ in SX.walk(f.body) for w_ in [SX.write_target(x_)] if w_ and SX.is_node(SX.strip(w_[0])) and SX.strip(w_[0]).get('k') == 'ref'}
        size_locals = {}
        for v_ in SX.walk(f.body, into_lambdas=False):
            if v_.get('k') == 'var' and v_.get('id') and v_['id'] not in written and SX.is_node(v_.get('init')):
                i_ = _peel(SX.strip(v_['init']))
                if SX.is_node(i_) and i_.get('k') == 'mcall' and SX.short(i_.get('callee', '')) == 'size' and not SX.real_args(i_):
                    size_locals[v_['id']] = SX.show(i_)
        for n in SX.walk(f.body, into_lambdas=False):
            if n['k'] != 'index' or 'callee' not in n or not n.get('bt', '').replace('const ', '').startswith('std::vector<'):
                continue
            base = SX.strip(n['base'])
            if not (base.get('k') == 'member' and base['name'].endswith('Array')):
                continue
            idx = SX.strip(n['i'])
            while SX.is_node(idx) and idx['k'] == 'cast':
                idx = idx['e']
            if idx.get('k') in ('int',):
                continue
            nsub += 1
            node = _node_containing(g, n)
            btxt = SX.show(base)
            itxt = SX.show(idx)
            lo = hi = False
            if node is not None:
                for ce, pol, _ in list(g.guards(node)) + _closure_guards(canon, g, node):
                    c0 = cmp_with_const(ce, itxt)
                    if c0 and ((c0 == ('<', 0) and not pol) or (c0 == ('>=', 0) and pol)):
                        lo = True
                    cp = SX.cmp_parts(ce)
                    if cp:
                        op = cp[0] if pol else {'<': '>=', '>=': '<', '>': '<=', '<=': '>'}.get(cp[0], cp[0])
                        l, r = SX.show(_peel(cp[1])), SX.show(_peel(cp[2]))
                        rr = _peel(cp[2])
                        if SX.is_node(rr) and rr.get('k') == 'ref' and rr.get('kind') == 'var' and rr.get('id') in size_locals:
                            r = size_locals[rr['id']]       # `const size_t length = arr.intArray.size();` (a helper's parameter after inlining)
                        if l == itxt and r == btxt + '.size()' and op == '<':
                            hi = True
                            if 'unsigned' in idx.get('t', ''):
                                lo = True
            if not (lo and hi) and node is not None and idx.get('k') == 'ref':
                ind = _induction(f, n, idx)
                if ind is not None:
                    lo = True
                    bound = ind     # text of the loop bound (X.size() or a local n)
                    if not hi:
                        if bound == btxt + '.size()':
                            hi = True
                        else:
                            for c in g.calls(lambda e: e['k'] == 'mcall' and SX.short(e['callee']) in ('resize', 'assign') and SX.show(e.get('obj')) == btxt):
                                a0 = SX.show(_peel(SX.real_args(c.e)[0])) if SX.real_args(c.e) else ''
                                if a0 == bound and g.dominates(c, node):
                                    hi = True
                            for ce, pol, _ in g.guards(node):
                                cp = SX.cmp_parts(ce)
                                if cp and ((cp[0] == '!=' and not pol) or (cp[0] == '==' and pol)):
                                    sides = {SX.show(_peel(cp[1])), SX.show(_peel(cp[2]))}
                                    if sides == {bound, btxt + '.size()'}:
                                        hi = True
                        if not hi:
                            hi = _bound_by_cases(f, g, node, bound, btxt)
            if lo and not hi and node is not None and base.get('k') == 'member':
                # the length comes from a per-kind length function: `if (i < 0 || i >= *primitiveArrayLength(arr)) throw` and the site
                # sits in `case K:` of `switch (arr.type)` where that function measures this very field
                hi = _upper_by_length_fn(prog, canon, g, node, itxt, SX.show(canon.expand(_peel(base.get('base')))), base['name'], ltabs)
            if not (lo and hi) and f in local_fns:
                deferred.add(id(n))          # a helper's subscript by its parameters: decided at the call sites below
                nsub -= 1
                continue
            chk.ob(rule, f, n.get('ln', f.ln), lo and hi, '%s[%s] needs the dominating test %s < 0 || %s >= %s.size() (found lower=%s upper=%s)' % (btxt[-30:], itxt, itxt, itxt, btxt[-30:], lo, hi),
                   key='subscript:%s:%s[%s]' % (f.short, base['name'], itxt))
    # subscripts inside file-local helper functions (`elementAt(coll, index)`): the obligation is transferred to every call site —
    # there the index argument is known non-negative and below the per-kind length of the array argument
    from ..kernels import enclosing_stmts
    for h in prog.functions:
        if not h.body or h.kind != 'function' or h.cls or not h.file.endswith('runtime_evaluator.cpp'):
            continue
        pids = {p_['id']: k_ for k_, p_ in enumerate(h.params) if p_.get('id')}
        for n in SX.walk(h.body, into_lambdas=False):
            if n['k'] != 'index' or 'callee' not in n or not n.get('bt', '').replace('const ', '').startswith('std::vector<'):
                continue
            if id(n) not in deferred:
                continue
            base = SX.strip(n['base'])
            idx = _peel(n['i'])
            nsub += 1
            arr = _peel(base.get('base'))
            if not (SX.is_node(arr) and arr.get('k') == 'ref' and arr.get('id') in pids and SX.is_node(idx) and idx.get('k') == 'ref' and idx.get('id') in pids):
                chk.vacuous.append('%s: subscript %s in a helper is not of the form <array parameter>.<field>[<index parameter>]' % (h.short, SX.show(n)[:40]))
                continue
            kind = None
            for st in enclosing_stmts(h.body, n):
                if st['k'] == 'switch' and SX.is_node(_peel(st.get('c'))) and _peel(st['c']).get('k') == 'member' and _peel(st['c']).get('name') == 'type' \
                        and _peel(_peel(st['c']).get('base')).get('id') == arr['id']:
                    kind = 'sw'
                if st['k'] == 'case' and kind == 'sw':
                    kind = SX.show(SX.strip(st.get('v')))
            sites = [(f2, c) for f2 in prog.functions if f2.body and f2.file.endswith('runtime_evaluator.cpp') for c in SX.walk(f2.body, into_lambdas=False)
                     if c['k'] == 'call' and c.get('callee') == h.name]
            if not sites or kind in (None, 'sw'):
                chk.vacuous.append('%s: subscript %s is not under a case of a switch over the array parameter\'s kind, or the helper is never called' % (h.short, SX.show(n)[:40]))
                continue
            for f2, c in sites:
                g2 = prog.cfg(f2)
                cn2 = Canon(prog, f2)
                node2 = _node_containing(g2, c)
                a_arr, a_idx = SX.real_args(c)[pids[arr['id']]], SX.real_args(c)[pids[idx['id']]]
                jt = SX.show(_peel(a_idx))
                lo2 = hi2 = False
                if node2 is not None:
                    for ce, pol, _ in g2.guards(node2):
                        c0 = cmp_with_const(ce, jt)
                        if c0 and ((c0 == ('<', 0) and not pol) or (c0 == ('>=', 0) and pol)):
                            lo2 = True
                    hi2 = _upper_by_length_fn(prog, cn2, g2, node2, jt, SX.show(cn2.expand(_peel(a_arr))), base['name'], ltabs, kind=kind)
                chk.ob(rule, f2, c.get('ln', f2.ln), lo2 and hi2,
                       '%s(…) subscripts %s.%s[%s] for kind %s: the call needs the dominating test %s < 0 || %s >= <length of that array> (found lower=%s upper=%s)' % (
                           h.short, SX.show(_peel(a_arr))[:20], base['name'], jt, kind, jt, jt, lo2, hi2), key='subscript:%s:%s:%s' % (f2.short, h.short, base['name']))
    chk.count('computed subscripts of value arrays', nsub, 12)



def _declared_long_rule(prog, chk, R):
    """R07.11 — `long` is 64 bits wherever a value sits in a slot declared long: an int bound to such a slot is converted, not just
    stored (`long c = 2000000000; c + c` was computed — and wrapped — at 32 bits, like an int argument bound to a long parameter or an
    int returned as long).  The binding sites are the ones C08's R08.4 enumerates: every one of them passes the value through a
    function that stamps the declared class.  So: (a) a widening function exists (by effect: its Value& parameter's kind is set to
    Long and the long payload copied from the int payload, under a test for the Int kind); (b) every stamping function calls it on
    its value parameter under a condition that mentions the Long kind / the type name "long"; (c) in `assign`, every store into an
    existing slot is preceded by a call of it on the stored copy."""
    from .C08 import _stamp_functions
    evfile = R.ev_method('execute').file
    fns = [f for f in prog.functions if f.body and f.file == evfile and f.kind in ('function', 'method')]
    wid = []
    for f in fns:
        if len(f.params) != 1 or not f.params[0]['type'].replace(' ', '').endswith('Value&') or 'const' in f.params[0]['type']:
            continue
        pid = f.params[0]['id']
        sets_long = copies = tests_int = False
        for n in SX.walk(f.body, into_lambdas=False):
            w = SX.write_target(n)
            if w and SX.is_node(SX.strip(w[0])) and SX.strip(w[0]).get('k') == 'member' and SX.strip(SX.strip(w[0])['base']).get('id') == pid:
                nm = SX.strip(w[0])['name']
                if nm == 'type' and 'Type::Long' in SX.show(w[1]).replace('Value::', '') or (nm == 'type' and SX.show(w[1]).endswith('Long')):
                    sets_long = True
                if nm == 'longValue' and any(y.get('k') == 'member' and y.get('name') == 'intValue' for y in SX.walk(w[1])):
                    copies = True
            if n.get('k') in ('if',) and any(y.get('k') == 'ref' and y.get('kind') == 'enum' and y['name'].endswith('Type::Int') for y in SX.walk(n.get('c'))):
                tests_int = True
        if sets_long and copies and tests_int:
            wid.append(f)
    chk.ob('R07.11', R.ev_method('execute'), 1, len(wid) == 1, 'exactly one function turns an int Value into a long Value in place (found %s)' % [f.short for f in wid], key='widener')
    if len(wid) != 1:
        return
    W = wid[0]
    stampers = _stamp_functions(prog, R)
    n = 0
    for key, (idx, f) in sorted(stampers.items()):
        vp = f.params[idx]['id']
        direct = [c for c in SX.walk(f.body, into_lambdas=False) if c.get('k') == 'call' and c.get('callee') == W.name and SX.real_args(c) and SX.strip(SX.real_args(c)[0]).get('id') == vp]
        # or it hands the value on to another stamping function unconditionally as its last act (which widens)
        via = [c for c in SX.walk(f.body, into_lambdas=False) if c.get('k') in ('call', 'mcall') and any(t.key in stampers and t is not f for t in prog.resolve(c))
               and any(SX.is_node(SX.strip(a)) and SX.strip(a).get('id') == vp for a in SX.real_args(c))]
        ok = False
        why = 'no call of %s on the value' % W.short
        g = prog.cfg(f)
        for c in direct:
            node = [x for x in g.nodes if x.kind == 'call' and x.e is c]
            gs = g.guards(node[0]) if node else []
            txt = ' '.join(SX.show(ce) for ce, pol, _ in gs)
            if gs and ('Long' in txt or '"long"' in txt):
                # the test that leads here is made before any early-out on the value's kind (an int is not an object reference)
                first = min(x.id for x in g.nodes if x.kind == 'cond') if any(x.kind == 'cond' for x in g.nodes) else None
                ok = True
                why = ''
        n += 1
        chk.ob('R07.11', f, f.ln, ok, '%s binds a value to a declared type: when that type is long an int value is widened (%s)' % (f.short, why or 'ok'), key='widen:' + f.short + ':' + f.sig[:40])
    # early-outs: no return on "value is not an object reference" precedes the long test (an int is not an object reference)
    for key, (idx, f) in sorted(stampers.items()):
        vp = f.params[idx]['id']
        top = f.body['body'] if f.body.get('k') == 'block' else []
        pos_w = [i for i, st in enumerate(top) if any(c.get('k') == 'call' and c.get('callee') == W.name for c in SX.walk(st, into_lambdas=False))]
        pos_r = [i for i, st in enumerate(top) if st.get('k') == 'if' and any(y.get('k') == 'return' for y in SX.walk(st.get('t'), into_lambdas=False)) and
                 any(y.get('k') == 'ref' and y.get('kind') == 'enum' and y['name'].endswith('Type::Object') for y in SX.walk(st.get('c'))) and
                 any(y.get('k') == 'ref' and y.get('id') == vp for y in SX.walk(st.get('c')))]
        if not pos_w:
            continue
        chk.ob('R07.11', f, f.ln, not pos_r or min(pos_w) < min(pos_r), '%s: the test for a declared long comes before the early return for values that are not object references' % f.short,
               key='widen-before-object-test:' + f.short + ':' + f.sig[:40], nontrivial=False)
    asg = R.ev_method('assign')
    g = prog.cfg(asg)
    stores = []
    for c in g.calls(lambda e: e['k'] == 'call' and SX.short(e.get('callee', '')) == 'storeInSlot'):
        stores.append((c, SX.strip(SX.real_args(c.e)[1])))
    for nd, l, r, op in g.writes():
        l0 = SX.strip(l)
        if op == '=' and SX.is_node(l0) and l0.get('k') == 'member' and l0.get('name') == 'value' and 'Value' in (l0.get('t') or ''):
            stores.append((nd, SX.strip(r)))
    for node, val in stores:
        n += 1
        ok = False
        if SX.is_node(val) and val.get('k') == 'ref':
            for c in g.calls(lambda e: e['k'] == 'call' and e.get('callee') == W.name):
                if SX.strip(SX.real_args(c.e)[0]).get('id') == val.get('id') and node.id in g.reachable([c]) and \
                        any('Long' in SX.show(ce) for ce, pol, _ in g.guards(c)):
                    ok = True
        chk.ob('R07.11', asg, node.ln or asg.ln, ok, 'assign stores %s into an existing slot: an int is widened first when the slot holds a long' % SX.show(val)[:20],
               key='widen:assign:%s' % (SX.show(val)[:20]))
    chk.count('binding sites that widen int to long', n, 4)


def _cond_before(g, call_node, ret_node):
    """the condition that guards call_node is evaluated on every path to ret_node"""
    gs = g.guards(call_node)
    if not gs:
        return False
    edge = gs[0][2]
    conds = [x for x in g.nodes if x.kind == 'cond' and edge in x.succ]
    return bool(conds) and g.dominates(conds[0], ret_node)


def _handler(prog, ev, cls):
    """where the evaluator handles AST class `cls`: the then-block of `if (auto v = dynamic_cast<cls*>(e))` in eval, or — when that
    block only forwards to a helper (`return evalBinary(v);`) — the helper's body.  → (function, block, id of the node variable)"""
    ifs = [s_ for s_ in SX.walk(ev.body, into_lambdas=False) if s_['k'] == 'if' and s_.get('cv') and cls in (s_['cv'].get('type') or '')]
    if len(ifs) != 1:
        raise AnalysisBroken('%s handler not found in eval' % cls)
    br = ifs[0]
    f, block, vid = ev, br['t'], br['cv']['id']
    for _ in range(3):
        st = block['body'] if SX.is_node(block) and block.get('k') == 'block' else [block]
        if len(st) != 1 or st[0]['k'] != 'return' or not SX.is_node(st[0].get('e')):
            break
        c = SX.strip(st[0]['e'])
        if not (SX.is_node(c) and c.get('k') in ('mcall', 'call')):
            break
        ts = [t for t in prog.resolve(c) if t.body and t.kind != 'lambda']
        args = SX.real_args(c)
        pos = [i for i, a in enumerate(args) if SX.is_node(SX.strip(a)) and SX.strip(a).get('id') == vid]
        if len(ts) != 1 or len(pos) != 1 or pos[0] >= len(ts[0].params):
            break
        f, block, vid = ts[0], ts[0].body, ts[0].params[pos[0]]['id']
    return f, block, vid, br


def _peel(e):
    e = SX.strip(e)
    while SX.is_node(e) and e['k'] == 'cast':
        e = SX.strip(e['e'])
    return e


def _length_tables(prog):
    """per-kind length functions: `switch (v.type) { case K: return v.F.size(); … default: return nullopt/0; }` over the single parameter v
    → {function name: {K (enumerator text): F}}"""
    out = {}
    for h in prog.functions:
        if not h.body or h.kind == 'lambda' or not h.file.endswith('runtime_evaluator.cpp') or len(h.params) != 1:
            continue
        st = h.body.get('body') if h.body.get('k') == 'block' else None
        if not st or st[0].get('k') != 'switch':
            continue
        sw = st[0]
        c = _peel(sw.get('c'))
        pid = h.params[0].get('id')
        if not (SX.is_node(c) and c.get('k') == 'member' and c.get('name') == 'type' and _peel(c.get('base')).get('id') == pid):
            continue
        tab, pending, ok = {}, [], True

        def walk(s):
            nonlocal ok, pending
            if not SX.is_node(s):
                return
            if s['k'] == 'block':
                for x in s['body']:
                    walk(x)
            elif s['k'] == 'case':
                pending.append(SX.show(SX.strip(s.get('v'))))
                walk(s.get('s'))
            elif s['k'] == 'default':
                pending = []
                walk(s.get('s'))
            elif s['k'] == 'return':
                e = _peel(s.get('e'))
                while SX.is_node(e) and e.get('k') == 'construct' and len(SX.real_args(e)) == 1:
                    e = _peel(SX.real_args(e)[0])
                if SX.is_node(e) and e.get('k') == 'mcall' and SX.short(e.get('callee', '')) == 'size' and SX.is_node(_peel(e.get('obj'))) and _peel(e['obj']).get('k') == 'member' \
                        and _peel(_peel(e['obj']).get('base')).get('id') == pid:
                    for k_ in pending:
                        tab[k_] = _peel(e['obj'])['name']
                pending = []
            elif s['k'] in ('break', 'null'):
                pass
            else:
                ok = False
        walk(sw.get('body'))
        if ok and len(tab) >= 2:
            out[h.name] = tab
    return out


def _upper_by_length_fn(prog, canon, g, node, idx_txt, arr_txt, field, tables, kind=None):
    """a dominating guard establishes idx < H(arr) for a length function H, and the subscripted field is the one H measures for the
    kind selected by the dominating `case` of a `switch (arr.type)` (or for `kind` when given: the case inside a helper)"""
    if kind is None:
        for d in g.dominators(node):
            if d.kind == 'case' and d.label not in (None, 'default'):
                sws = [p for p in g.nodes if p.kind == 'switch' and g.dominates(p, d)]
                for sw in sws[-1:]:
                    c = _peel(sw.e.get('c')) if SX.is_node(sw.e) else None
                    if SX.is_node(c) and c.get('k') == 'member' and c.get('name') == 'type' and SX.show(canon.expand(_peel(c.get('base')))) == arr_txt:
                        kind = SX.show(SX.strip(d.e.get('v'))) if SX.is_node(d.e) else str(d.label)
    if kind is None:
        return False
    for ce, pol, _ in g.guards(node):
        cp = SX.cmp_parts(ce)
        if not cp:
            continue
        op = cp[0] if pol else {'<': '>=', '>=': '<', '>': '<=', '<=': '>'}.get(cp[0], cp[0])
        l, r = _peel(cp[1]), _peel(cp[2])
        if op == '>' :
            l, r, op = r, l, '<'
        if op != '<' or SX.show(l) != idx_txt:
            continue
        x = _peel(canon.expand(r))
        # *opt / opt.value() of a local optional holding the length
        while SX.is_node(x) and ((x.get('k') in ('opcall', 'un') and x.get('op') == '*') or (x.get('k') == 'mcall' and SX.short(x.get('callee', '')) == 'value')):
            x = _peel(canon.expand(_peel(x['args'][0] if x.get('k') == 'opcall' else (x.get('e') if x.get('k') == 'un' else x.get('obj')))))
        if SX.is_node(x) and x.get('k') == 'ref' and x.get('id') in canon.vars and x['id'] not in canon.written and SX.is_node(canon.vars[x['id']].get('init')):
            x = _peel(canon.vars[x['id']]['init'])       # the local that holds the length (`auto length = lengthOf(arr);`, never reassigned)
        if SX.is_node(x) and x.get('k') == 'call' and x.get('callee') in tables and len(SX.real_args(x)) == 1:
            if SX.show(canon.expand(_peel(SX.real_args(x)[0]))) == arr_txt and tables[x['callee']].get(kind) == field:
                return True
    return False


def _induction(f, node, idx):
    """idx is the induction variable of an enclosing `for (i = 0; i < B; ++i)` not written in the body → text of B"""
    from ..kernels import enclosing_stmts, full_range_for
    for lp in reversed([s for s in enclosing_stmts(f.body, node) if s['k'] == 'for']):
        fr = full_range_for(lp)
        if fr and fr[0] == idx.get('id'):
            _induction.last_bound = _peel(fr[1])
            return SX.show(_peel(fr[1]))
    return None


def _loop_kind(lp):
    if lp['k'] == 'forrange':
        return 'for:' + SX.show(lp['range'])[-30:]
    return lp['k'] + ':' + SX.show(lp.get('c'))[:30]


def _exits_loop(g, edge, head):
    """from this edge the loop head is not reachable again without leaving through the loop's exit"""
    r = g.reachable([edge])
    # reaching the head of the *same* loop again means the loop continues
    body = g.reachable([head]) & g.reachable([head], forward=False)
    # nodes reachable from the edge while staying inside the loop body
    seen = set()
    stack = [edge]
    while stack:
        n = stack.pop()
        if n.id in seen:
            continue
        seen.add(n.id)
        if n is head:
            return False
        for s in n.succ:
            if s.id in body or s is head:
                stack.append(s)
    return True


def _node_containing(g, x):
    for cn in g.nodes:
        if cn.e is x:
            return cn
    for cn in g.nodes:
        if cn.kind in ('entry', 'exit', 'throwexit', 'loophead', 'rangeinit', 'edge', 'tryentry', 'catch', 'switch', 'case', 'break', 'continue'):
            continue
        e = cn.e
        if cn.kind == 'decl':
            e = e.get('init')
        if cn.kind == 'return':
            e = e.get('e')
        if SX.is_node(e) and any(y is x for y in SX.walk(e, into_lambdas=False)):
            return cn
    return None


def _routing(prog, chk, ev):
    ev = _handler(prog, ev, 'BinaryExpression')[0]
    """Roles by definition shape: F = bool local := (l.type == Float || r.type == Float); L likewise with Long; D = double locals
    initialised `x.type == Float ? x.floatValue : (double) n`; N = the integer locals those read."""
    g = prog.cfg(ev)

    def tag_disj(v, tag):
        i = SX.strip(v.get('init'))
        if not (SX.is_node(i) and i['k'] == 'bin' and i['op'] == '||'):
            return False
        sides = [SX.strip(i['l']), SX.strip(i['r'])]
        return all(SX.is_node(x) and x['k'] == 'bin' and x['op'] == '==' and SX.strip(x['r']).get('k') == 'ref' and SX.strip(x['r'])['name'].endswith('Type::' + tag)
                   and SX.strip(x['l']).get('k') == 'member' and SX.strip(x['l'])['name'] == 'type' for x in sides)
    F, L, D, N = {}, {}, {}, {}
    for v in SX.walk(ev.body, into_lambdas=False):
        if v['k'] != 'var' or not SX.is_node(v.get('init')):
            continue
        if v.get('type') == 'bool' and tag_disj(v, 'Float'):
            F[v['id']] = v
        elif v.get('type') == 'bool' and tag_disj(v, 'Long'):
            L[v['id']] = v
        elif v.get('type') == 'double':
            i = SX.strip(v['init'])
            if i.get('k') == 'cond' and 'Float' in SX.show(i['c']) and 'floatValue' in SX.show(i['t']):
                D[v['id']] = v
                for x in SX.walk(i['f']):
                    if x['k'] == 'ref' and x.get('kind') == 'var' and x.get('t') in ('long', 'long long', 'std::int64_t', 'int64_t'):
                        N[x['id']] = x
    if not F and not L:
        # the cascade does not keep its operand kinds in local flags (a record of converted operands handed to helpers, say): this
        # guard-shape rule has nothing to read.  What it protects — no long computed or compared through doubles, result tags that
        # match the operand kinds — is decided by value in the operator table (R07.7), whose representatives include longs above 2^53
        chk.extra['routing_rule'] = 'not applied: the cascade has no has-float / has-long flag locals; decided by the operator table (R07.7) alone'
        return
    if len(F) != 1 or len(L) != 1:
        raise AnalysisBroken('numeric cascade roles not resolved (F=%d L=%d)' % (len(F), len(L)))
    fid, lid = list(F)[0], list(L)[0]
    fdecl = [n for n in g.nodes if n.kind == 'decl' and n.e is F[fid]]
    if not fdecl:
        raise AnalysisBroken('has-float declaration not in the CFG')
    fdecl = fdecl[0]
    # only the converted operands of this cascade (declared next to the flags)
    for vid in list(D):
        dn = [n for n in g.nodes if n.kind == 'decl' and n.e is D[vid]]
        if not dn or not g.dominates(fdecl, dn[0]):
            del D[vid]
    N = {}
    for v in D.values():
        for x in SX.walk(SX.strip(v['init'])['f']):
            if x['k'] == 'ref' and x.get('kind') == 'var' and x.get('t') in ('long', 'long long', 'std::int64_t', 'int64_t'):
                N[x['id']] = x
    if len(D) != 2 or len(N) != 2:
        raise AnalysisBroken('numeric cascade operands not resolved (D=%d N=%d)' % (len(D), len(N)))

    def pol_of(node, vid):
        """+1 / -1 when the node is dominated by a branch on the flag itself, 0 otherwise"""
        for ce, pol, _ in g.guards(node):
            c = SX.strip(ce)
            if SX.is_node(c) and c.get('k') == 'ref' and c.get('id') == vid:
                return 1 if pol else -1
        return 0

    def op_branch(node):
        for ce, pol, _ in g.guards(node):
            if not pol:
                continue
            cp = SX.cmp_parts(ce)
            if cp and cp[0] == '==':
                for x in (cp[1], cp[2]):
                    x = SX.strip(x)
                    lit = [y for y in SX.walk(x) if y['k'] == 'str']
                    if lit and len(lit[0]['v']) <= 2:
                        return lit[0]['v']
        return None

    def operand_class(e):
        e = _peel(e)
        if SX.is_node(e) and e.get('k') == 'ref':
            if e.get('id') in D:
                return 'D'
            if e.get('id') in N:
                return 'N'
        return None
    nD = nN = ntag = 0
    ARITH = ('+', '-', '*', '/', '%', '<', '>', '<=', '>=', '==', '!=')
    for n in SX.walk(ev.body, into_lambdas=False):
        if n['k'] != 'bin' or n['op'] not in ARITH:
            continue
        a, b = operand_class(n['l']), operand_class(n['r'])
        if a is None or a != b:
            continue
        node = _node_containing(g, n)
        if node is None or not g.dominates(fdecl, node):
            continue
        opb = op_branch(node)
        if a == 'D':
            nD += 1
            ok = pol_of(node, fid) > 0 or opb == '/'
            chk.ob('R07.6', ev, n.get('ln', ev.ln), ok,
                   '`%s` computes on the double-converted operands; it must be reached only when an operand is float (guard %s) — integer operands above 2^53 lose precision' %
                   (SX.show(n), F[fid]['name']), key='double-op:%s:%s' % (opb, n['op']))
        else:
            nN += 1
            ok = pol_of(node, fid) < 0 or opb == '%'
            chk.ob('R07.6', ev, n.get('ln', ev.ln), ok,
                   '`%s` computes on the integer operands; it must be reached only when no operand is float (guard !%s)' % (SX.show(n), F[fid]['name']),
                   key='int-op:%s:%s' % (opb, n['op']))
    # result tags
    for node in g.nodes:
        if not g.dominates(fdecl, node) or node is fdecl:
            continue
        tag = None
        if node.kind == 'return' and SX.is_node(node.e.get('e')):
            e = SX.strip(node.e['e'])
            if e.get('k') in ('construct', 'initlist'):
                items = SX.real_args(e) if e['k'] == 'construct' else e.get('items', [])
                if items and SX.strip(items[0]).get('k') == 'ref' and SX.strip(items[0]).get('kind') == 'enum':
                    tag = SX.strip(items[0])['name'].split('::')[-1]
        elif node.kind in ('assign', 'call'):
            w = SX.write_target(node.e)
            if w and SX.strip(w[0]).get('k') == 'member' and SX.strip(w[0])['name'] == 'type' and SX.is_node(SX.strip(w[1])) and SX.strip(w[1]).get('kind') == 'enum':
                tag = SX.strip(w[1])['name'].split('::')[-1]
        if tag not in ('Float', 'Long', 'Int'):
            continue
        opb = op_branch(node)
        if opb not in ('+', '-', '*', '/', '%'):
            continue
        ntag += 1
        pf, pl = pol_of(node, fid), pol_of(node, lid)
        if tag == 'Float':
            ok = pf > 0 or opb == '/'
        elif tag == 'Long':
            ok = pl > 0 and (pf < 0 or opb == '%')
        else:
            ok = pl < 0 and (pf < 0 or opb == '%')
        chk.ob('R07.6', ev, node.ln or ev.ln, ok, 'result tagged %s in the `%s` branch sits under the matching operand-type guards (float:%+d long:%+d)' % (tag, opb, pf, pl),
               key='tag:%s:%s' % (opb, tag))
    # lower bounds guard against the cascade vanishing from view, not against branches being merged (the operator tables above decide values)
    chk.count('double-operand operations in the cascade', nD, 4)
    chk.count('integer-operand operations in the cascade', nN, 4)
    chk.count('tagged numeric results', ntag, 6)


# ------------------------------------------------------------------------------------------------------
RT = 'bloch::runtime::Value::Type::'
TAGS = ['Int', 'Long', 'Float', 'Bit', 'Boolean', 'String', 'Char']
REP = {  # one representative per tag class and side; right operands are non-zero and not -1 (those branches are R07.4's)
    'Int': (7, 2), 'Long': (7000000000, 3), 'Float': (7.5, 2.0), 'Bit': (1, 1), 'Boolean': (True, False), 'String': ('ab', 'cd'), 'Char': ('a', 'b')}
# integer operands a double cannot hold (2^53 + 1, and 2^53 / 2^53 + 3 on the right): a cascade that computes a long result, or compares
# longs, through the double-converted operands gives a different answer on these — decided by value, whatever shape the cascade has
REP_BIG1 = dict(REP, Long=(2 ** 53 + 1, 2 ** 53))
REP_BIG2 = dict(REP, Long=(2 ** 53 + 1, 2 ** 53 + 3))
REP_EQ = {'Int': (5, 5), 'Long': (5, 5), 'Float': (5.0, 5.0), 'Bit': (1, 1), 'Boolean': (True, True), 'String': ('ab', 'ab'), 'Char': ('a', 'a')}
FIELD = {'Int': 'intValue', 'Long': 'longValue', 'Float': 'floatValue', 'Bit': 'bitValue', 'Boolean': 'boolValue', 'String': 'stringValue', 'Char': 'charValue'}
NUM = ('Int', 'Long', 'Float')
OPS = ['+', '-', '*', '/', '%', '<', '>', '<=', '>=', '==', '!=', '&&', '||', '&', '|', '^']


def _documented_result(op, a, b):
    """result tag the documentation fixes for well-typed operands, or None where it fixes nothing
    (language-guide: arithmetic on int/long/float, mixed int/long → long, any float → float; casting.md: `/` always float,
    `%` integer-only; comparisons and logical operators return boolean; bitwise on bit; string + anything → string)"""
    if op == '+' and 'String' in (a, b):
        # documented by example for numbers ("Answer: " + 42); boolean/bit/char operands are not fixed by the documentation
        return 'String' if all(x in ('String',) + NUM for x in (a, b)) else None
    if op in ('+', '-', '*') and a in NUM and b in NUM:
        return 'Float' if 'Float' in (a, b) else ('Long' if 'Long' in (a, b) else 'Int')
    if op == '/' and a in NUM and b in NUM:
        return 'Float'
    if op == '%' and a in ('Int', 'Long') and b in ('Int', 'Long'):
        return 'Long' if 'Long' in (a, b) else 'Int'
    if op in ('<', '>', '<=', '>=') and a in NUM and b in NUM:
        return 'Boolean'
    if op in ('==', '!=') and ((a in NUM and b in NUM) or (a == b and a in ('String', 'Char', 'Boolean', 'Bit'))):
        return 'Boolean'
    if op in ('&&', '||') and a in ('Boolean', 'Bit') and b in ('Boolean', 'Bit') and 'Boolean' in (a, b):
        return 'Boolean'      # a bit used as a condition counts as true iff it is 1 (measure results steer control flow)
    if op in ('==', '!=') and {a, b} == {'Boolean', 'Bit'}:
        return 'Boolean'
    if op in ('&', '|', '^') and a == 'Bit' and b == 'Bit':
        return 'Bit'
    return None


def _py(op, x, y):
    import operator as O
    f = {'+': O.add, '-': O.sub, '*': O.mul, '<': O.lt, '>': O.gt, '<=': O.le, '>=': O.ge, '==': O.eq, '!=': O.ne, '&': O.and_, '|': O.or_, '^': O.xor}
    if op == '/':
        return float(x) / float(y)
    if op == '%':
        return int(abs(x) % abs(y)) * (1 if x >= 0 else -1)
    if op == '&&':
        return bool(x) and bool(y)
    if op == '||':
        return bool(x) or bool(y)
    return f[op](x, y)


def _tag_table(prog, chk, ev):
    from ..kabs import Interp, Obj, Unsupported, Thrown, Ret
    hf, hblock, hvid, br0 = _handler(prog, ev, 'BinaryExpression')
    br = {'t': hblock, 'cv': {'id': hvid}, 'ln': br0.get('ln')}
    # quotient validity: inside the handler, control may depend on operand *values* only through comparisons with literals
    VALS = set(FIELD.values())
    bad = []
    conds = []
    for n in SX.walk(br['t']):
        if n['k'] == 'if' and n.get('c') is not None:
            conds.append(n['c'])
        elif n['k'] == 'cond':
            conds.append(n['c'])
        elif n['k'] in ('while', 'for') and n.get('c') is not None:
            conds.append(n['c'])
    numeric_locals = {v['id'] for v in SX.walk(br['t']) if v['k'] == 'var' and v.get('type') in ('double', 'long', 'int', 'std::int64_t')}
    for c in conds:
        for x in SX.walk(c):
            if x['k'] == 'bin' and x['op'] in ('<', '>', '<=', '>=', '==', '!='):
                sides = [_peel(x['l']), _peel(x['r'])]
                valish = [sd for sd in sides if SX.is_node(sd) and ((sd.get('k') == 'member' and sd.get('name') in VALS) or (sd.get('k') == 'ref' and sd.get('id') in numeric_locals))]
                lits = [sd for sd in sides if SX.is_node(sd) and (sd.get('k') in ('int', 'float', 'bool') or
                                                                (sd.get('k') == 'un' and sd.get('op') == '-' and SX.is_node(_peel(sd.get('e'))) and _peel(sd['e']).get('k') in ('int', 'float')))]
                if valish and not lits and not all('size' in SX.show(sd) for sd in sides):
                    bad.append(SX.show(x)[:50])
            elif x['k'] == 'member' and x.get('name') in VALS and not any(x is y for c2 in conds for b in SX.walk(c2) if b['k'] == 'bin' for y in (_peel(b['l']), _peel(b['r']))):
                # a bare value used as a condition (e.g. `if (v.boolValue)`) — only inside the to-bool closures, whose result is the value itself
                pass
    chk.ob('R07.7', ev, br.get('ln', ev.ln), not bad,
           'inside the operator cascade control depends on operand values only through comparisons with literals (zero / -1 tests), so one representative per type tag decides '
           'the result type for all values; other value-dependent branches: %s' % bad[:5], key='table:quotient')
    if bad:
        return

    def val(tag, side, rep):
        o = Interp(prog, {}).default_struct(prog.facts.records['bloch::runtime::Value'], {})
        o['type'] = RT + tag
        o[FIELD[tag]] = rep[tag][side]
        return o

    def fmt(v):
        t = v['type'].split('::')[-1]
        x = v[FIELD[t]]
        if t == 'Boolean':
            return 'true' if x else 'false'
        return str(x)
    mism, vals, n = [], [], 0
    for op in OPS:
        for a in TAGS:
            for b in TAGS:
                want = _documented_result(op, a, b)
                if want is None:
                    continue
                n += 1
                reps = (REP, REP_EQ) if op in ('==', '!=', '<=', '>=', '<', '>') else (REP,)
                if 'Long' in (a, b) and a in ('Int', 'Long') and b in ('Int', 'Long') and op in ('+', '-', '%', '==', '!=', '<=', '>=', '<', '>'):
                    reps = reps + (REP_BIG1, REP_BIG2)
                for rep in reps:
                    binobj = Obj(op=op, left=Obj(side=0), right=Obj(side=1), line=1, column=1)
                    lv, rv = val(a, 0, rep), val(b, 1, rep)

                    def m_eval(it, e, env, lv=lv, rv=rv):
                        x = it.expr(SX.real_args(e)[0], env)
                        return Obj(lv) if x['side'] == 0 else Obj(rv)
                    models = {'eval': m_eval, 'get': lambda it, e, env: it.expr(e['obj'], env), 'valueToString': lambda it, e, env: fmt(it.expr(SX.real_args(e)[0], env))}
                    it = Interp(prog, models, max_steps=4000)
                    env = {br['cv']['id']: binobj, 'this': Obj()}
                    got, res = None, None
                    try:
                        it.stmt(br['t'], env)
                        got = 'falls through'
                    except Ret as r:
                        res = r.v
                        got = res['type'].split('::')[-1] if isinstance(res, Obj) and 'type' in res else 'non-value'
                    except Thrown:
                        got = 'runtime error'
                    except Unsupported as ex:
                        raise AnalysisBroken('abstract evaluation of the operator cascade (%s %s %s): %s' % (a, op, b, ex))
                    if got != want:
                        mism.append('%s %s %s → %s (documented %s)' % (a.lower(), op, b.lower(), got, want.lower()))
                        break
                    if want != 'String':
                        # the representative's value: which operands feed the result, in which order (not a claim about all values)
                        exp = _py(op, rep[a][0], rep[b][1])
                        gv = res[FIELD[want]]
                        if (abs(gv - exp) > 1e-9) if (isinstance(exp, float) or isinstance(gv, float)) and not isinstance(exp, bool) else (gv != exp):
                            vals.append('%r %s %r = %r, expected %r' % (rep[a][0], op, rep[b][1], gv, exp))
                    else:
                        exp = fmt(lv) + fmt(rv)
                        if res[FIELD['String']] != exp:
                            vals.append('%r + %r = %r, expected %r' % (rep[a][0], rep[b][1], res[FIELD['String']], exp))
    # zero divisors: `/` and `%` stop with a runtime error whatever the operand kinds (decided by value: the shape of the test is free)
    zero_bad, nz = [], 0
    for op in ('/', '%'):
        kinds = NUM if op == '/' else ('Int', 'Long')
        for a in kinds:
            for b in kinds:
                nz += 1
                zrep = dict(REP, **{b: (REP[b][0], 0.0 if b == 'Float' else 0)})
                binobj = Obj(op=op, left=Obj(side=0), right=Obj(side=1), line=1, column=1)
                lv, rv = val(a, 0, REP), val(b, 1, zrep)

                def m_eval0(it, e, env, lv=lv, rv=rv):
                    x = it.expr(SX.real_args(e)[0], env)
                    return Obj(lv) if x['side'] == 0 else Obj(rv)
                models = {'eval': m_eval0, 'get': lambda it, e, env: it.expr(e['obj'], env), 'valueToString': lambda it, e, env: fmt(it.expr(SX.real_args(e)[0], env))}
                it = Interp(prog, models, max_steps=4000)
                try:
                    it.stmt(br['t'], {br['cv']['id']: binobj, 'this': Obj()})
                    zero_bad.append('%s %s %s(0) falls through' % (a.lower(), op, b.lower()))
                except Ret:
                    zero_bad.append('%s %s %s(0) yields a value' % (a.lower(), op, b.lower()))
                except Thrown:
                    pass
                except (Unsupported, ZeroDivisionError) as ex:
                    zero_bad.append('%s %s %s(0) is evaluated (%s)' % (a.lower(), op, b.lower(), type(ex).__name__))
    chk.ob('R07.4', ev, br.get('ln', ev.ln), not zero_bad, '`/` and `%%` with a zero right operand stop with a runtime error for all %d operand-kind pairs; otherwise: %s' % (nz, zero_bad[:4]),
           key='table:zero-divisor')
    chk.extra['operator_type_combinations'] = n
    chk.ob('R07.7', ev, br.get('ln', ev.ln), not mism,
           'result type of %d documented (operator, left type, right type) combinations equals the documented one; mismatches: %s' % (n, mism[:8]), key='table:result-types')
    chk.ob('R07.7', ev, br.get('ln', ev.ln), not vals,
           'on the representatives the result is the named operation applied to (left, right) in that order; mismatches: %s' % vals[:6], key='table:representatives')
    chk.count('documented operator/type combinations evaluated', n, 90)
    # ---- formatting: the text of a float never goes through a narrowing integer conversion (whole-number test included) ----
    vts = [f for f in prog.functions if f.body and f.short == 'valueToString' and f.file.endswith('runtime_evaluator.cpp')]
    if len(vts) != 1:
        raise AnalysisBroken('valueToString not found')
    vt = vts[0]
    narrow = [x for x in SX.walk(vt.body, into_lambdas=False) if x['k'] == 'cast' and x.get('type') in ('int', 'long', 'unsigned int', 'short', 'long long', 'std::int64_t') and
              any(y.get('k') == 'member' and y.get('name') in ('floatValue',) for y in SX.walk(x['e']))]
    chk.ob('R07.7', vt, (narrow[0].get('ln') if narrow else vt.ln), not narrow,
           'the text of a float value is produced without converting it to an integer type (found %s): such a conversion limits the whole-number form `N.0` to the int range and is '
           'undefined beyond it' % [SX.show(x)[:40] for x in narrow][:2], key='format:float-no-narrowing')


def _closure_guards(canon, g, node):
    """guards contributed by dominating calls of *guard closures*: a local closure whose body is `if (C) throw …;` (no else, the
    branch cannot complete normally) establishes ¬C, with its parameters replaced by the call's arguments, once it returns.
    Returned in the (expr, polarity, edge) form of CFG guards, one entry per disjunct of C."""
    out = []
    for d in g.dominators(node):
        if d.kind != 'call' or not isinstance(d.e, dict):
            continue
        c = canon.closure(d.e)
        if not c:
            continue
        lf, args = c
        b = lf.body
        st = b['body'] if SX.is_node(b) and b.get('k') == 'block' else [b]
        ifs = [x for x in st if x['k'] == 'if']
        if len(ifs) != 1 or any(x['k'] not in ('if', 'decls') for x in st) or ifs[0].get('e') is not None or ifs[0].get('cv'):
            continue
        t = ifs[0]['t']
        tst = t['body'] if t.get('k') == 'block' else [t]
        if not tst or not (tst[-1]['k'] == 'expr' and SX.is_node(tst[-1].get('e')) and tst[-1]['e'].get('k') == 'throw'):
            continue
        subst = {prm['id']: canon.expand(a) for prm, a in zip(lf.params, args)}

        def split(e):
            e = SX.strip(e)
            if SX.is_node(e) and e.get('k') == 'bin' and e['op'] == '||':
                return split(e['l']) + split(e['r'])
            return [e]
        for part in split(ifs[0]['c']):
            out.append((canon.expand(part, subst), False, d))
    return out


def _cast_table(prog, chk, ev):
    """(target)expr for numeric targets/sources, by abstract evaluation of the cast handler (docs/casting.md, language-guide)"""
    from ..kabs import Interp, Obj, Unsupported, Thrown, Ret
    hf, hblock, hvid, br0 = _handler(prog, ev, 'CastExpression')
    br = {'t': hblock, 'cv': {'id': hvid}, 'ln': br0.get('ln')}
    SRC = {'Int': [3, 0, -4], 'Long': [5000000000, 0], 'Float': [2.7, -2.7, 0.0, 0.4, 3000000000.5, -1099511627777.0], 'Bit': [1, 0]}
    mism, n = [], 0
    for tgt in ('Int', 'Long', 'Float', 'Bit'):
        for src, reps in SRC.items():
            for x in reps:
                if tgt == 'Int' and isinstance(x, (int, float)) and abs(x) >= 2 ** 31:
                    continue      # narrowing beyond 32 bits: "may lose precision", nothing documented to compare with
                n += 1
                inv = Interp(prog, {}).default_struct(prog.facts.records['bloch::runtime::Value'], {})
                inv['type'] = RT + src
                inv[FIELD[src]] = x
                castobj = Obj(expression=Obj(), targetType=Obj(), line=1, column=1)
                models = {'eval': lambda it, e, env, inv=inv: Obj(inv), 'get': lambda it, e, env: it.expr(e['obj'], env),
                          'typeInfoFromAst': lambda it, e, env, tgt=tgt: Obj(kind=RT + tgt, className='', typeArgs=[])}
                it = Interp(prog, models, max_steps=2000)
                try:
                    it.stmt(br['t'], {br['cv']['id']: castobj, 'this': Obj()})
                    got = ('falls through', None)
                except Ret as r:
                    v = r.v
                    tag = v['type'].split('::')[-1] if isinstance(v, Obj) else '?'
                    got = (tag, v[FIELD[tag]] if tag in FIELD else None)
                except Thrown:
                    got = ('runtime error', None)
                except Unsupported as ex:
                    raise AnalysisBroken('abstract evaluation of the cast handler ((%s) %s): %s' % (tgt, src, ex))
                if tgt == 'Bit':
                    want = 1 if x != 0 else 0
                elif tgt in ('Int', 'Long'):
                    want = int(x)           # truncation toward zero
                else:
                    want = float(x)
                ok = got[0] == tgt and got[1] is not None and abs(got[1] - want) < 1e-12
                if not ok:
                    mism.append('(%s)%r [%s] → %s %r, documented %s %r' % (tgt.lower(), x, src.lower(), got[0], got[1], tgt.lower(), want))
    chk.extra['cast_cases'] = n
    chk.ob('R07.8', ev, br.get('ln', ev.ln), not mism, '%d (target, source, representative) cast cases give the target type and the documented value; mismatches: %s' % (n, mism[:6]), key='table:casts')
    chk.count('cast cases evaluated', n, 30)


def _unary_table(prog, chk, ev):
    from ..kabs import Interp, Obj, Unsupported, Thrown, Ret

    def handler(cls):
        hf, hblock, hvid, br0 = _handler(prog, ev, cls)
        return {'t': hblock, 'cv': {'id': hvid}, 'ln': br0.get('ln')}

    def val(tag, x):
        o = Interp(prog, {}).default_struct(prog.facts.records['bloch::runtime::Value'], {})
        o['type'] = RT + tag
        o[FIELD[tag]] = x
        return o
    un = handler('UnaryExpression')
    mism, n = [], 0
    CASES = [('-', 'Int', 7, 'Int', -7), ('-', 'Int', -3, 'Int', 3), ('-', 'Long', 7000000000, 'Long', -7000000000), ('-', 'Float', 2.5, 'Float', -2.5),
             ('!', 'Boolean', True, 'Boolean', False), ('!', 'Boolean', False, 'Boolean', True), ('~', 'Bit', 1, 'Bit', 0), ('~', 'Bit', 0, 'Bit', 1)]
    for op, tag, x, wtag, wv in CASES:
        n += 1
        v = val(tag, x)
        node = Obj(op=op, right=Obj(), line=1, column=1)
        models = {'eval': lambda it, e, env, v=v: Obj(v), 'get': lambda it, e, env: it.expr(e['obj'], env)}
        try:
            Interp(prog, models, max_steps=2000).stmt(un['t'], {un['cv']['id']: node, 'this': Obj()})
            got = ('falls through', None)
        except Ret as r:
            t = r.v['type'].split('::')[-1] if isinstance(r.v, Obj) else '?'
            got = (t, r.v[FIELD[t]] if t in FIELD else None)
        except Thrown:
            got = ('runtime error', None)
        except Unsupported as ex:
            raise AnalysisBroken('abstract evaluation of the unary handler (%s %s): %s' % (op, tag, ex))
        if got != (wtag, wv):
            mism.append('%s%r [%s] → %s %r, documented %s %r' % (op, x, tag.lower(), got[0], got[1], wtag.lower(), wv))
    po = handler('PostfixExpression')
    for op, x, new in (('++', 5, 6), ('--', 5, 4), ('++', -1, 0)):
        n += 1
        stored = []
        cur = val('Int', x)
        var = Obj(name='i', __class=['VariableExpression', 'Expression'])
        node = Obj(op=op, left=Obj(target=var), line=1, column=1)

        def m_get(it, e, env):
            o = it.expr(e['obj'], env)
            return o.get('target', o) if isinstance(o, Obj) else o
        models = {'lookup': lambda it, e, env, cur=cur: Obj(cur), 'get': m_get,
                  'assign': lambda it, e, env, stored=stored: stored.append((it.expr(SX.real_args(e)[0], env), it.expr(SX.real_args(e)[1], env)))}
        it = Interp(prog, models, max_steps=2000)
        # dynamic_cast<VariableExpression*>(x) yields x in the abstract evaluation (the operand is a variable)
        try:
            it.stmt(po['t'], {po['cv']['id']: node, 'this': Obj()})
            got = None
        except Ret as r:
            got = r.v
        except Thrown:
            got = 'runtime error'
        except Unsupported as ex:
            raise AnalysisBroken('abstract evaluation of the postfix handler: %s' % ex)
        ok = isinstance(got, Obj) and got.get('type') == RT + 'Int' and got.get('intValue') == x and len(stored) == 1 and stored[0][0] == 'i' and \
            isinstance(stored[0][1], Obj) and stored[0][1].get('type') == RT + 'Int' and stored[0][1].get('intValue') == new
        if not ok:
            mism.append('i%s with i=%d → result %s, stored %s; documented result %d, stored %d' % (
                op, x, got.get('intValue') if isinstance(got, Obj) else got, [(a, b.get('intValue') if isinstance(b, Obj) else b) for a, b in stored], x, new))
    chk.extra['unary_cases'] = n
    chk.ob('R07.9', ev, un.get('ln', ev.ln), not mism, '%d unary/postfix cases give the documented type and value; mismatches: %s' % (n, mism[:6]), key='table:unary-postfix')
    chk.count('unary/postfix cases evaluated', n, 10)


def _bound_by_cases(f, g, node, bound, btxt):
    """The loop bound is a local `n = c ? A.size() : B.size()` (c a boolean local).  At the subscript X[i] some of the boolean
    locals are known from the dominating guards; in every case of c that is still possible, n is X.size() itself or a size that a
    dominating check `if (p && q && A.size() != X.size()) throw` (all of p, q known true in that case) forces to be equal."""
    bnode = getattr(_induction, 'last_bound', None)
    bid = bnode.get('id') if SX.is_node(bnode) and bnode.get('k') == 'ref' else None
    decl = [v for v in SX.walk(f.body, into_lambdas=False) if v['k'] == 'var' and v.get('id') == bid and SX.is_node(v.get('init'))]
    if bid is None or len(decl) != 1:
        return False
    if any((SX.write_target(n_) or [None])[0] is not None and SX.strip(SX.write_target(n_)[0]).get('id') == decl[0]['id'] for n_ in SX.walk(f.body, into_lambdas=False)):
        return False
    init = _peel(SX.strip(decl[0]['init']))
    alts = []
    if init.get('k') == 'cond' and SX.strip(init['c']).get('k') == 'ref':
        cid = SX.strip(init['c'])['id']
        alts = [(cid, True, SX.show(_peel(SX.strip(init['t'])))), (cid, False, SX.show(_peel(SX.strip(init['f']))))]
    else:
        alts = [(None, None, SX.show(init))]
    want = btxt + '.size()'
    known = {}
    neg_conj = []      # guards of the form ¬(a && b && …): lists of atoms
    for ce, pol, _ in g.guards(node):
        c0 = SX.strip(ce)
        if SX.is_node(c0) and c0.get('k') == 'ref' and c0.get('t', '').replace('const ', '') == 'bool':
            known[c0['id']] = pol
        if not pol:
            atoms = []

            def split(e_):
                e_ = SX.strip(e_)
                if SX.is_node(e_) and e_.get('k') == 'bin' and e_.get('op') == '&&':
                    split(e_['l'])
                    split(e_['r'])
                else:
                    atoms.append(e_)
            split(c0)
            if len(atoms) > 1:
                neg_conj.append(atoms)
    # earlier sibling checks `if (a && b && …) throw/return;` of the enclosing blocks: past them the conjunction is false
    from ..kernels import enclosing_stmts
    target = node.e if node.kind != 'decl' else node.e
    chain = [b_ for b_ in enclosing_stmts(f.body, target) if b_['k'] == 'block']
    for blk in chain:
        for st in blk['body']:
            if any(y is target for y in SX.walk(st)):
                break
            if st['k'] == 'if' and not st.get('e') and not st.get('cv'):
                tb = st['t']
                last = tb['body'][-1] if tb.get('k') == 'block' and tb.get('body') else tb
                if last.get('k') in ('throw', 'return', 'ireturn') or (last.get('k') == 'expr' and SX.is_node(SX.strip(last.get('e'))) and SX.strip(last['e']).get('k') == 'throw') \
                        or (last.get('k') == 'block' and last.get('body') and last['body'][-1].get('k') == 'ireturn'):
                    atoms = []

                    def split2(e_):
                        e_ = SX.strip(e_)
                        if SX.is_node(e_) and e_.get('k') == 'bin' and e_.get('op') == '&&':
                            split2(e_['l'])
                            split2(e_['r'])
                        else:
                            atoms.append(e_)
                    split2(st['c'])
                    if len(atoms) > 1:
                        neg_conj.append(atoms)
    for cid, pol, size in alts:
        if cid is not None and cid in known and known[cid] != pol:
            continue      # this case cannot reach the subscript
        if size == want:
            continue
        assume = dict(known)
        if cid is not None:
            assume[cid] = pol
        forced = False
        for atoms in neg_conj:
            bools = [a for a in atoms if SX.is_node(a) and a.get('k') == 'ref']
            rest = [a for a in atoms if not (SX.is_node(a) and a.get('k') == 'ref')]
            if len(rest) != 1 or not all(assume.get(b_['id']) is True for b_ in bools):
                continue
            cp = SX.cmp_parts(rest[0])
            if cp and cp[0] == '!=' and {SX.show(_peel(cp[1])), SX.show(_peel(cp[2]))} == {size, want}:
                forced = True
        if not forced:
            return False
    return True
