"""Control-flow graphs built from sx statement trees.

Granularity: one node per *event* — every call-like sub-expression, assignment, inc/dec, throw,
declaration, return and lambda creation gets its own node, linked in C++ evaluation order
(operands before the operation; object before arguments; for assignments right before left).
Short-circuit operators and `?:` are real branches, also in value context.  Every two-way branch
has explicit synthetic edge nodes ('edge', polarity True/False) so that "guarded by" is plain node
dominance.  Exceptions: a `throw` (and a call to a function in `noreturn`) ends its path at the
THROW exit; inside a `try` every node additionally has an exceptional edge to each handler.
Lambda bodies are not part of the enclosing graph.
"""
from . import sx as SX


class Node:
    __slots__ = ('id', 'kind', 'e', 'succ', 'xsucc', 'pred', 'ln', 'pol', 'cond', 'label', 'stmt')

    def __init__(self, i, kind, e=None, ln=None):
        self.id = i
        self.kind = kind
        self.e = e
        self.succ = []
        self.xsucc = []
        self.pred = []
        self.ln = ln
        self.pol = None
        self.cond = None
        self.label = None
        self.stmt = None

    def allsucc(self):
        return self.succ + self.xsucc

    def __repr__(self):
        t = SX.show(self.e) if self.e is not None and self.kind not in ('entry', 'exit', 'throwexit') else ''
        return '<%d %s%s L%s %s>' % (self.id, self.kind, '' if self.pol is None else ('+' if self.pol else '-'), self.ln, t[:70])


class CFG:
    def __init__(self, fn, noreturn=frozenset()):
        self.fn = fn
        self.nodes = []
        self.noreturn = noreturn
        self._loops = []      # (continue_target_collector, break_collector)
        self._try = []        # stack of lists collecting nodes inside try bodies
        self._sw = []
        self.entry = self._new('entry')
        self.exit = self._new('exit')
        self.throwexit = self._new('throwexit')
        self.stmt_nodes = {}  # id(stmt) -> first node index range
        out = [self.entry]
        # constructor member initialisers run first
        for init in fn.d.get('inits', []) if hasattr(fn, 'd') else []:
            out = self.X(init.get('init'), out)
            n = self._new('ctorinit', init, None)
            self._link(out, n)
            out = [n]
        out = self.S(fn.body, out)
        self._link(out, self.exit)
        for n in self.nodes:
            for s in n.succ + n.xsucc:
                s.pred.append(n)
        self._idom = None

    # ---- construction ---------------------------------------------------------------------
    def _new(self, kind, e=None, ln=None):
        n = Node(len(self.nodes), kind, e, ln if ln is not None else (e.get('ln') if isinstance(e, dict) else None))
        self.nodes.append(n)
        for t in self._try:
            t.append(n)
        return n

    def _link(self, preds, n):
        for p in preds:
            p.succ.append(n)

    def _is_noreturn_call(self, e):
        if not SX.is_node(e):
            return False
        if e['k'] in ('call', 'mcall'):
            key = (e.get('callee') or '') + e.get('sig', '')
            return key in self.noreturn or (e.get('callee') in ('std::terminate', 'std::abort', 'std::exit', 'exit', 'abort'))
        return False

    def X(self, e, preds):
        """Linearise expression e in value context; returns the dangling predecessor list."""
        if not SX.is_node(e) or not preds:
            return preds
        k = e['k']
        if k in ('int', 'float', 'bool', 'str', 'char', 'nullptr', 'this', 'ref', 'zeroinit', 'sizeof', 'typeid', 'unk'):
            return preds
        if k == 'defaultarg':
            return preds
        if k == 'member':
            return self.X(e['base'], preds)
        if k == 'bin':
            if e['op'] in ('&&', '||'):
                t, f = self.C(e, preds)
                return t + f
            preds = self.X(e['l'], preds)
            return self.X(e['r'], preds)
        if k in ('assign', 'cassign'):
            preds = self.X(e['r'], preds)
            preds = self.X(e['l'], preds)
            n = self._new('assign', e)
            self._link(preds, n)
            return [n]
        if k == 'un':
            preds = self.X(e['e'], preds)
            if e['op'] in ('++', '--'):
                n = self._new('incdec', e)
                self._link(preds, n)
                return [n]
            return preds
        if k == 'cond':
            t, f = self.C(e['c'], preds)
            a = self.X(e['t'], t)
            b = self.X(e['f'], f)
            return a + b
        if k == 'index':
            preds = self.X(e['base'], preds)
            preds = self.X(e['i'], preds)
            if 'callee' in e:
                n = self._new('call', e)
                self._link(preds, n)
                return [n]
            return preds
        if k in ('call', 'mcall', 'opcall', 'construct'):
            if k == 'mcall':
                preds = self.X(e.get('obj'), preds)
            if k == 'call' and not e.get('callee'):
                preds = self.X(e.get('calleeExpr'), preds)
            if k == 'opcall' and e['op'] in ('&&', '||'):
                pass
            for a in e.get('args', []):
                preds = self.X(a, preds)
            n = self._new('call', e)
            self._link(preds, n)
            if self._is_noreturn_call(e):
                n.succ.append(self.throwexit)
                return []
            return [n]
        if k == 'new':
            preds = self.X(e.get('init'), preds)
            n = self._new('call', e)
            self._link(preds, n)
            return [n]
        if k == 'delete':
            preds = self.X(e['e'], preds)
            n = self._new('call', e)
            self._link(preds, n)
            return [n]
        if k in ('cast', 'dyncast'):
            return self.X(e['e'], preds)
        if k == 'initlist':
            for a in e['items']:
                preds = self.X(a, preds)
            return preds
        if k == 'lambda':
            n = self._new('lambda', e)
            self._link(preds, n)
            return [n]
        if k == 'throw':
            preds = self.X(e.get('e'), preds)
            n = self._new('throw', e)
            self._link(preds, n)
            n.succ.append(self.throwexit)
            return []
        return preds

    def C(self, e, preds):
        """Linearise e in branch context; returns (true_preds, false_preds)."""
        if not preds:
            return [], []
        if SX.is_node(e):
            k = e['k']
            if k == 'bin' and e['op'] == '&&':
                t1, f1 = self.C(e['l'], preds)
                t2, f2 = self.C(e['r'], t1)
                return t2, f1 + f2
            if k == 'bin' and e['op'] == '||':
                t1, f1 = self.C(e['l'], preds)
                t2, f2 = self.C(e['r'], f1)
                return t1 + t2, f2
            if k == 'un' and e['op'] == '!':
                t, f = self.C(e['e'], preds)
                return f, t
            if k == 'bool':
                return (preds, []) if e['v'] else ([], preds)
        preds = self.X(e, preds)
        if not preds:
            return [], []
        c = self._new('cond', e)
        self._link(preds, c)
        t = self._new('edge', e)
        t.pol = True
        t.cond = c
        f = self._new('edge', e)
        f.pol = False
        f.cond = c
        c.succ = [t, f]
        return [t], [f]

    def _decl(self, v, preds):
        preds = self.X(v.get('init'), preds)
        n = self._new('decl', v)
        self._link(preds, n)
        return [n]

    def S(self, s, preds):
        if s is None:
            return preds
        k = s['k']
        if not preds and k not in ('case', 'default', 'block', 'switch'):
            return []
        if k == 'block':
            for c in s['body']:
                preds = self.S(c, preds)
            return preds
        if k == 'decls':
            for v in s['d']:
                preds = self._decl(v, preds)
            return preds
        if k == 'expr':
            return self.X(s['e'], preds)
        if k == 'null':
            return preds
        if k == 'return':
            preds = self.X(s.get('e'), preds)
            n = self._new('return', s)
            self._link(preds, n)
            n.succ.append(self.exit)
            return []
        if k == 'inlineblock':
            # body of an inlined helper (K-NORM): its `return`s were rewritten to `ireturn` — jumps to the end of this block
            frame = []
            if not hasattr(self, '_iframes'):
                self._iframes = []
            self._iframes.append(frame)
            out = self.S(s['body'], preds)
            self._iframes.pop()
            return out + frame
        if k == 'ireturn':
            n = self._new('ireturn', s)
            self._link(preds, n)
            if getattr(self, '_iframes', None):
                self._iframes[-1].append(n)
            return []
        if k == 'if':
            preds = self.S(s.get('init'), preds)
            if s.get('cv'):
                preds = self._decl(s['cv'], preds)
                v = s['cv']
                ce = {'k': 'ref', 'kind': 'var', 'name': v['name'], 'id': v['id'], 't': v['type'], 'cvinit': v.get('init'), 'ln': s.get('ln')}
                t, f = self.C(ce, preds)
            else:
                t, f = self.C(s['c'], preds)
            a = self.S(s['t'], t)
            b = self.S(s.get('e'), f)
            return a + b
        if k in ('while', 'for'):
            if k == 'for':
                preds = self.S(s.get('init'), preds)
            head = self._new('loophead', s)
            self._link(preds, head)
            if s.get('cv'):
                hp = self._decl(s['cv'], [head])
                v = s['cv']
                ce = {'k': 'ref', 'kind': 'var', 'name': v['name'], 'id': v['id'], 't': v['type'], 'cvinit': v.get('init'), 'ln': s.get('ln')}
                t, f = self.C(ce, hp)
            elif s.get('c') is None:
                t, f = [head], []
            else:
                t, f = self.C(s['c'], [head])
            brk, cont = [], []
            self._loops.append((cont, brk))
            body_out = self.S(s['body'], t)
            self._loops.pop()
            latch = body_out + cont
            if k == 'for' and s.get('inc') is not None and latch:
                latch = self.X(s['inc'], latch)
            self._link(latch, head)
            return f + brk
        if k == 'do':
            head = self._new('loophead', s)
            self._link(preds, head)
            brk, cont = [], []
            self._loops.append((cont, brk))
            body_out = self.S(s['body'], [head])
            self._loops.pop()
            t, f = self.C(s['c'], body_out + cont)
            self._link(t, head)
            return f + brk
        if k == 'forrange':
            preds = self.X(s['range'], preds)
            it = self._new('rangeinit', s)
            self._link(preds, it)
            head = self._new('loophead', s)
            self._link([it], head)
            c = self._new('cond', {'k': 'rangehas', 'ln': s.get('ln'), 'range': s['range']})
            self._link([head], c)
            t = self._new('edge', c.e)
            t.pol = True
            t.cond = c
            f = self._new('edge', c.e)
            f.pol = False
            f.cond = c
            c.succ = [t, f]
            b = self._new('decl', s['var'])
            self._link([t], b)
            brk, cont = [], []
            self._loops.append((cont, brk))
            body_out = self.S(s['body'], [b])
            self._loops.pop()
            self._link(body_out + cont, head)
            return [f] + brk
        if k == 'break':
            n = self._new('break', s)
            self._link(preds, n)
            if self._loops:
                self._loops[-1][1].append(n)
            return []
        if k == 'continue':
            n = self._new('continue', s)
            self._link(preds, n)
            for cont, brk in reversed(self._loops):
                if cont is not None:
                    cont.append(n)
                    break
            return []
        if k == 'switch':
            preds = self.S(s.get('init'), preds)
            preds = self.X(s['c'], preds)
            sw = self._new('switch', s)
            self._link(preds, sw)
            brk = []
            self._loops.append((None, brk))
            self._sw.append({'node': sw, 'default': False})
            out = self.S(s['body'], [])
            info = self._sw.pop()
            self._loops.pop()
            res = out + brk
            if not info['default']:
                res = res + [sw]
            return res
        if k in ('case', 'default'):
            info = self._sw[-1]
            n = self._new('case', s)
            n.label = SX.show(s.get('v')) if k == 'case' else 'default'
            if k == 'default':
                info['default'] = True
            info['node'].succ.append(n)
            self._link(preds, n)
            return self.S(s.get('s'), [n])
        if k == 'try':
            collected = []
            tentry = self._new('tryentry', s)
            self._link(preds, tentry)
            self._try.append(collected)
            out = self.S(s['body'], [tentry])
            self._try.pop()
            for h in s['handlers']:
                hn = self._new('catch', h, h.get('ln'))
                tentry.xsucc.append(hn)
                for c in collected:
                    if c.kind in ('call', 'throw', 'assign', 'decl'):
                        c.xsucc.append(hn)
                out = out + self.S(h['body'], [hn])
            return out
        if k == 'unkstmt':
            n = self._new('unkstmt', s)
            self._link(preds, n)
            return [n]
        # anything else: treat as opaque single node
        n = self._new('stmt', s)
        self._link(preds, n)
        return [n]

    # ---- queries --------------------------------------------------------------------------
    def reachable(self, srcs, avoid=(), forward=True, use_x=True):
        """Set of node ids reachable from srcs (exclusive of the srcs unless on a cycle) without
        entering nodes in `avoid`."""
        avoid = {a.id if isinstance(a, Node) else a for a in avoid}
        seen = set()
        stack = []
        for s in srcs:
            nx = (s.succ + (s.xsucc if use_x else [])) if forward else s.pred
            stack.extend(nx)
        while stack:
            n = stack.pop()
            if n.id in seen or n.id in avoid:
                continue
            seen.add(n.id)
            nx = (n.succ + (n.xsucc if use_x else [])) if forward else n.pred
            stack.extend(nx)
        return seen

    def must_precede(self, guards, target):
        """True iff every path entry→target passes through a node of `guards` first."""
        if target in guards:
            return True
        r = self.reachable([self.entry], avoid=guards)
        return target.id not in r

    def must_follow(self, src, followers, normal_only=True, use_x=True):
        """True iff every path from src to the normal exit passes through a node in `followers`
        (paths ending in a throw satisfy the obligation when normal_only).  use_x=False ignores paths that enter a
        catch handler (for obligations that only concern executions in which nothing was thrown)."""
        r = self.reachable([src], avoid=followers, use_x=use_x)
        if self.exit.id in r:
            return False
        if not normal_only and self.throwexit.id in r:
            return False
        return True

    def witness_path(self, src, dst, avoid=()):
        """A shortest path (list of nodes) from src to dst avoiding `avoid`, or None."""
        avoid = {a.id for a in avoid}
        from collections import deque
        prev = {src.id: None}
        dq = deque([src])
        while dq:
            n = dq.popleft()
            for s in n.succ + n.xsucc:
                if s.id in prev or s.id in avoid:
                    continue
                prev[s.id] = n
                if s is dst:
                    path = [s]
                    while prev[path[-1].id] is not None:
                        path.append(prev[path[-1].id])
                    return list(reversed(path))
                dq.append(s)
        return None

    def idom(self):
        if self._idom is not None:
            return self._idom
        # reverse postorder
        order = []
        seen = set()
        stack = [(self.entry, iter(self.entry.succ + self.entry.xsucc))]
        seen.add(self.entry.id)
        while stack:
            n, it = stack[-1]
            adv = False
            for s in it:
                if s.id not in seen:
                    seen.add(s.id)
                    stack.append((s, iter(s.succ + s.xsucc)))
                    adv = True
                    break
            if not adv:
                order.append(n)
                stack.pop()
        order.reverse()
        rpo = {n.id: i for i, n in enumerate(order)}
        idom = {self.entry.id: self.entry.id}

        def inter(a, b):
            while a != b:
                while rpo[a] > rpo[b]:
                    a = idom[a]
                while rpo[b] > rpo[a]:
                    b = idom[b]
            return a
        changed = True
        while changed:
            changed = False
            for n in order[1:]:
                new = None
                for p in n.pred:
                    if p.id in idom:
                        new = p.id if new is None else inter(p.id, new)
                if new is not None and idom.get(n.id) != new:
                    idom[n.id] = new
                    changed = True
        self._idom = idom
        return idom

    def dominators(self, n):
        """Nodes strictly dominating n, nearest first."""
        idom = self.idom()
        out = []
        if n.id not in idom:
            return out
        cur = n.id
        while idom[cur] != cur:
            cur = idom[cur]
            out.append(self.nodes[cur])
        return out

    def guards(self, n):
        """[(cond_expr, polarity, edge_node)] for every branch edge dominating n, nearest first."""
        return [(d.e, d.pol, d) for d in self.dominators(n) if d.kind == 'edge']

    def dominates(self, a, b):
        return a is b or a in self.dominators(b)

    def calls(self, pred=None):
        for n in self.nodes:
            if n.kind == 'call' and (pred is None or pred(n.e)):
                yield n

    def writes(self):
        """(node, lvalue, rhs, op) for every node that writes through an lvalue."""
        for n in self.nodes:
            if n.kind in ('assign', 'incdec', 'call') and isinstance(n.e, dict):
                w = SX.write_target(n.e)
                if w:
                    yield n, w[0], w[1], w[2]

    def loops(self):
        return [n for n in self.nodes if n.kind == 'loophead']
