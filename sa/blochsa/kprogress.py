"""K-LOOP / progress analysis: the classical termination argument for a hand-written scanner or
recursive-descent parser, checked on the CFGs of one class.

Facts tracked on every path (forward must-dataflow, meet = AND):
   C  a token/character has definitely been consumed since the region entry
   N  the cursor is known not to be at end-of-input (no consumption since the evidence)
   X  the enclosing loop's condition is known to be false (the next test of the loop exits)
Function summaries, least fixpoint over the class:
   MC0(f) every normal path of f consumes (or f throws)            — "must-consume-or-throw"
   MC1(f) the same provided f is entered with N
   MT(f)  f returns bool and every `return` that can yield true has C   (match-like)
   NT(f)  every `return` that can yield true has N                       (check-like)
   NF(f)  every `return` that can yield false has N                      (isAtEnd-like)
A loop terminates if on every path from its head back to its head C or X holds (input is finite and the
cursor only moves forward), or if it is a range-for over a container its body does not grow, or a
counted loop over a local index.  Recursion terminates if the "first-call graph" (f→g when g can be
called before anything was consumed) is acyclic."""
from . import sx as SX
from .facts import AnalysisBroken

TOP = (1, 1, 1, 1)


class Progress:
    def __init__(self, prog, cls_qname, cursor, require_n, eof_enum=None, size_texts=()):
        self.p = prog
        self.cls = cls_qname
        self.cursor = cursor
        self.require_n = require_n
        self.eof = eof_enum
        self.size_texts = size_texts
        self.fns = [f for f in prog.functions if f.cls == cls_qname and f.body]
        self.bykey = {}
        for f in self.fns:
            self.bykey.setdefault(f.name + f.sig, f)
        self.MC0, self.MC1, self.MT, self.NT, self.NF = set(), set(), set(), set(), set()
        self.ONE = set()
        self._ub = {}
        self._g = None
        self.moves = self._cursor_movers()
        self.ONE = self._single_step()
        self._fix()

    # ---- which methods can move the cursor ----------------------------------------------------
    def _writes_cursor(self, f):
        for n in SX.walk(f.body, into_lambdas=False):
            w = SX.write_target(n)
            if w and SX.is_this_member(SX.strip(w[0]), self.cursor):
                return True
        return False

    def _cursor_movers(self):
        mv = {f.key for f in self.fns if self._writes_cursor(f)}
        self._direct_movers = set(mv)
        changed = True
        while changed:
            changed = False
            for f in self.fns:
                if f.key in mv:
                    continue
                for n, fs in self.p.callees(f):
                    if any(t.key in mv for t in fs):
                        mv.add(f.key)
                        changed = True
                        break
        return mv

    def _single_step(self):
        """methods that move the cursor by exactly one position when they move it: one `++`/`+= 1` write, not in a loop,
        and no call to another mover"""
        out = set()
        for f in self.fns:
            ws = []
            for n in SX.walk(f.body, into_lambdas=False):
                w = SX.write_target(n)
                if w and SX.is_this_member(SX.strip(w[0]), self.cursor):
                    ws.append(w)
            if len(ws) != 1 or not (ws[0][2] == '++' or (ws[0][2] == '+=' and _pos_const(ws[0][1]) and _peel(ws[0][1])['v'] == 1)):
                continue
            if any(n['k'] in ('for', 'while', 'do', 'forrange') for n in SX.walk(f.body, into_lambdas=False)):
                continue
            calls_mover = False
            for n, fs in self.p.callees(f):
                if any(t.key in self._direct_movers and t is not f for t in fs):
                    calls_mover = True
            if not calls_mover:
                out.add(f.key)
        # wrappers that do nothing but call one single-step method once are not needed here
        return out

    def callee_of(self, e):
        if not (SX.is_node(e) and e['k'] == 'mcall'):
            return None
        if not e['callee'].startswith(self.cls + '::'):
            return None
        return self.bykey.get(e['callee'] + e.get('sig', ''))

    # ---- evidence from conditions -------------------------------------------------------------
    def n_evidence(self, cond, pol, node=None):
        """cond with polarity pol establishes 'not at end'."""
        c = cond
        self._node = node
        # optional<…> b = table(<current token>.type); `b` engaged ⇒ not at end when the table has no entry for Eof
        v = c
        if SX.is_node(v) and v['k'] == 'mcall' and SX.short(v['callee']) in ('operator bool', 'has_value'):
            v = v.get('obj')
        if pol and SX.is_node(v) and v['k'] == 'ref' and v.get('kind') == 'var' and node is not None and self.eof:
            d = self._decl_of(v)
            init = SX.strip(d.e.get('init')) if d is not None else None
            if SX.is_node(init) and init['k'] in ('call', 'mcall') and 'optional' in init.get('t', ''):
                a = SX.real_args(init)
                if len(a) == 1 and SX.is_node(a[0]) and a[0]['k'] == 'member' and a[0]['name'] == 'type' and self._is_current_token(a[0]['base']) \
                        and self._unmoved_between(d, node) and self._table_excludes_eof(init):
                    return True
        if pol and SX.is_node(c) and c['k'] in ('call', 'mcall') and self.eof and len(SX.real_args(c)) == 1:
            # a token-kind predicate `isPrimitiveTypeToken(peek().type)`: true ⇒ not at end, when the predicate — evaluated from
            # its own syntax tree — is false for the end-of-input kind
            a0 = SX.strip(SX.real_args(c)[0])
            if self._is_current_kind(a0):
                ts = [t for t in self.p.resolve(c) if t.body]
                if len(ts) == 1 and len(ts[0].params) == 1 and (ts[0].ret or '') == 'bool':
                    key = ('eofpred', ts[0].key)
                    if key not in self._ub:
                        ok_ = False
                        try:
                            from .kabs import Interp, Unsupported, OutOfRange
                            ety = (ts[0].params[0].get('type') or '').replace('const ', '').strip()
                            rv = Interp(self.p, {}, max_steps=3000).call_fn(ts[0], [ety + '::' + self.eof])
                            ok_ = rv is False
                        except Exception:
                            ok_ = False
                        self._ub[key] = ok_
                    if self._ub[key]:
                        return True
        if SX.is_node(c) and c['k'] == 'mcall':
            g = self.callee_of(c)
            if g is not None:
                if pol and g.key in self.NT:
                    return True
                if not pol and g.key in self.NF:
                    return True
        if SX.is_node(c) and c['k'] == 'call' and pol and SX.short(c.get('callee', '')) in ('isdigit', 'isalpha', 'isalnum', 'isxdigit', 'isupper', 'islower', 'ispunct', 'isspace'):
            # character classes exclude the '\0' the scanner's peek() yields at end of input
            return any(self._is_peek_or_alias(x) for a in c['args'] for x in SX.walk(a))
        cp = SX.cmp_parts(c)
        if cp:
            op, l, r = cp
            if not pol:
                op = {'==': '!=', '!=': '==', '<': '>=', '>=': '<', '>': '<=', '<=': '>'}[op]
            for a, b in ((l, r), (r, l)):
                # <token>.type ==/!= TokenType::K
                if SX.is_node(b) and b['k'] == 'ref' and b.get('kind') == 'enum' and self.eof and SX.is_node(a):
                    if self._is_current_kind(a):
                        iseof = b['name'].endswith('::' + self.eof)
                        if (op == '==' and not iseof) or (op == '!=' and iseof):
                            return True
                # peek() ==/!= 'c'
                if SX.is_node(b) and b['k'] == 'char' and self._is_peek_or_alias(_peel(SX.strip(a))):
                    if (op == '==' and b['v'] != 0) or (op == '!=' and b['v'] == 0):
                        return True
            # cursor < size
            lt, rt = SX.show(_peel(l)), SX.show(_peel(r))
            if op == '<' and lt == self.cursor and rt in self.size_texts:
                return True
            if op == '>' and rt == self.cursor and lt in self.size_texts:
                return True
        return False

    def _is_current_kind(self, e):
        """e is the kind of the current token: `peek().type` (or `<local bound to peek()>.type`), or a local initialised with that and
        no cursor movement since (`const TokenType head = peek().type;`)"""
        e = SX.strip(e)
        while SX.is_node(e) and e.get('k') == 'cast':
            e = SX.strip(e['e'])
        if SX.is_node(e) and e.get('k') == 'member' and e.get('name') == 'type' and self._is_current_token(e.get('base')):
            return True
        node = getattr(self, '_node', None)
        if SX.is_node(e) and e.get('k') == 'ref' and e.get('kind') == 'var' and node is not None:
            d = self._decl_of(e)
            if d is not None and SX.is_node(d.e.get('init')):
                i = SX.strip(d.e['init'])
                while SX.is_node(i) and i.get('k') == 'cast':
                    i = SX.strip(i['e'])
                if SX.is_node(i) and i.get('k') == 'member' and i.get('name') == 'type' and self._is_peek(SX.strip(i.get('base'))) and self._unmoved_between(d, node):
                    return True
        return False

    def _is_peek(self, e):
        g = self.callee_of(e) if SX.is_node(e) else None
        return g is not None and g.short == 'peek'

    def _is_peek_or_alias(self, e):
        if self._is_peek(e):
            return True
        node = getattr(self, '_node', None)
        if SX.is_node(e) and e['k'] == 'ref' and e.get('kind') == 'var' and node is not None:
            d = self._decl_of(e)
            if d is not None and self._is_peek(_peel(SX.strip(d.e.get('init')))) and self._unmoved_between(d, node):
                return True
        return False

    def _is_current_token(self, e):
        e = SX.strip(e)
        if self._is_peek(e):
            return True
        # a local bound to peek() with no cursor movement since
        node = getattr(self, '_node', None)
        if SX.is_node(e) and e['k'] == 'ref' and e.get('kind') == 'var' and node is not None:
            d = self._decl_of(e)
            if d is not None and self._is_peek(SX.strip(d.e.get('init'))) and self._unmoved_between(d, node):
                return True
        return False

    def _decl_of(self, ref):
        g = getattr(self, '_g', None)
        if g is None:
            return None
        for n in g.nodes:
            if n.kind == 'decl' and SX.is_node(n.e) and n.e.get('id') == ref.get('id'):
                return n
        return None

    def _unmoved_between(self, d, node):
        """no cursor-moving call on any path from declaration d to node"""
        g = self._g
        key = (d.id, node.id)
        c = self._ub.get((id(g), key))
        if c is not None:
            return c
        # only the acyclic segment d → node: do not go around an enclosing loop (a new iteration re-executes d anyway)
        heads = [h for h in g.nodes if h.kind == 'loophead' and g.dominates(h, d)]
        fwd = g.reachable([d], avoid=[node] + heads)
        bwd = g.reachable([node], forward=False, avoid=[d] + heads)
        ok = True
        for i in fwd & bwd:
            n = g.nodes[i]
            if n.kind == 'call':
                t = self.callee_of(n.e)
                if t is not None and t.key in self.moves:
                    ok = False
                    break
            if n.kind in ('assign', 'incdec', 'call') and SX.is_node(n.e):
                w = SX.write_target(n.e)
                if w and SX.is_this_member(SX.strip(w[0]), self.cursor):
                    ok = False
                    break
        self._ub[(id(g), key)] = ok
        return ok

    def _table_excludes_eof(self, call):
        fs = self.p.resolve(call)
        if len(fs) != 1 or not fs[0].body:
            return False
        f = fs[0]
        for n in SX.walk(f.body):
            if n['k'] == 'case' and SX.is_node(n.get('v')) and SX.show(n['v']).endswith(self.eof):
                return False
        # some path must yield an empty optional (the default)
        return any(n['k'] == 'return' and SX.is_node(n.get('e')) and 'nullopt' in SX.show(n['e']) for n in SX.walk(f.body))

    # ---- dataflow -----------------------------------------------------------------------------
    def run(self, g, start, init, region=None, loop_cond_text=None, progress_vars=(), flag_var=None):
        """Forward must-analysis from `start` (state `init` *after* start) inside `region` (set of node ids or None).
        Returns {node id: state before node}."""
        self._g = g
        instate = {}
        outstate = {start.id: init}
        work = [s for s in start.succ + start.xsucc]
        for s in work:
            pass
        from collections import deque
        dq = deque()
        for s in start.succ + start.xsucc:
            dq.append(s)
        seen_out = outstate
        it = 0
        while dq:
            n = dq.popleft()
            it += 1
            if it > 200000:
                raise AnalysisBroken('progress dataflow did not converge in ' + g.fn.name)
            if region is not None and n.id not in region:
                continue
            if n is start:
                continue
            st = None
            for p in n.pred:
                if p.id in seen_out:
                    st = seen_out[p.id] if st is None else tuple(a & b for a, b in zip(st, seen_out[p.id]))
            if st is None:
                continue
            old_in = instate.get(n.id)
            if old_in == st and n.id in seen_out:
                continue
            instate[n.id] = st
            out = self.transfer(n, st, loop_cond_text, progress_vars, flag_var)
            if seen_out.get(n.id) != out:
                seen_out[n.id] = out
                for s in n.succ + n.xsucc:
                    dq.append(s)
        return instate, seen_out

    def transfer(self, n, st, loop_cond_text=None, progress_vars=(), flag_var=None):
        C, N, X, N2 = st
        k = n.kind
        e = n.e
        if k == 'case' and n.label not in (None, 'default') and n.pred and all(p.kind in ('switch', 'case') for p in n.pred):
            # `switch (peek().type) { case TokenType::K: …` with K other than end-of-input: not at end (only when the label is
            # entered from the switch itself, not by falling through from statements of an earlier case)
            sw = [p for p in n.pred if p.kind == 'switch']
            cur = n
            hops = 0
            while not sw and hops < 40:
                nxt = [p for p in cur.pred if p.kind == 'case']
                if not nxt:
                    break
                cur = nxt[0]
                sw = [p for p in cur.pred if p.kind == 'switch']
                hops += 1
            if sw and SX.is_node(sw[0].e) and SX.is_node(sw[0].e.get('c')):
                c = SX.strip(sw[0].e['c'])
                self._node = sw[0]
                if self.eof and SX.is_node(c) and self._is_current_kind(c) \
                        and not str(n.label).endswith(self.eof) and SX.is_node(n.e.get('v')) and SX.strip(n.e['v']).get('kind') == 'enum':
                    return (C, 1, X, N2)
                # `switch (peek()) { case 'f': …` — the scanner's peek() yields '\0' at end of input, so a non-NUL label is
                # the same evidence as the comparison `peek() == 'f'`
                v = SX.strip(n.e.get('v')) if SX.is_node(n.e) else None
                if SX.is_node(c) and self._is_peek_or_alias(_peel(c)) and SX.is_node(v) and v.get('k') == 'char' and v.get('v') != 0:
                    return (C, 1, X, N2)
            return (C, N, X, N2)
        if k == 'edge':
            cond = e
            if SX.is_node(cond) and cond.get('k') == 'mcall':
                g = self.callee_of(cond)
                if g is not None and n.pol and g.key in self.MT:
                    return (1, N2 if g.key in self.ONE else 0, 0, 0)
                if g is not None and n.pol and N and g.key in self.NF:
                    return TOP   # "at end" while known not to be at end: infeasible path
            if self.n_evidence(cond, n.pol, n):
                N = 1
            if self.n2_evidence(cond, n.pol):
                N2 = 1
            if loop_cond_text is not None and not n.pol and SX.show(cond) == loop_cond_text:
                X = 1
            if flag_var is not None and SX.is_node(cond) and cond.get('k') == 'ref' and cond.get('id') == flag_var and not n.pol:
                X = 1
            return (C, N, X, N2)
        if k == 'call' and SX.is_node(e):
            g = self.callee_of(e)
            if g is not None:
                if g.key in self.MC0 or (N and g.key in self.MC1):
                    return (1, N2 if g.key in self.ONE else 0, 0, 0)
                if g.key in self.moves:
                    # (a loop governed by a local flag stays falsified whatever the cursor does: only a write of the flag can undo it)
                    return (C, 0, X if flag_var is not None else 0, 0)
                return (C, N, X, N2)
            w = SX.write_target(e)
            if w and SX.is_this_member(SX.strip(w[0]), self.cursor):
                return self._cursor_write(w, C, N, N2)
            return (C, N, X, N2)
        if k in ('assign', 'incdec') and SX.is_node(e):
            w = SX.write_target(e)
            if w:
                l = SX.strip(w[0])
                if SX.is_this_member(l, self.cursor):
                    return self._cursor_write(w, C, N, N2)
                if SX.is_node(l) and l['k'] == 'ref' and l.get('id') in progress_vars:
                    if w[2] in ('++',) or (w[2] == '+=' and _pos_const(w[1])) or (w[2] == '=' and _is_increment_of(w[1], l.get('id'))):
                        return (1, N, X, N2)
                if flag_var is not None and SX.is_node(l) and l['k'] == 'ref' and l.get('id') == flag_var and SX.is_node(w[1]) and w[1]['k'] == 'bool' and not w[1]['v']:
                    return (C, N, 1, N2)
                if flag_var is not None and SX.is_node(l) and l['k'] == 'ref' and l.get('id') == flag_var:
                    return (C, N, 0, N2)      # the flag is written with something other than `false`: no longer known to be cleared
            return (C, N, X, N2)
        return (C, N, X, N2)

    def n2_evidence(self, cond, pol):
        """the character after the current one exists: peekNext() ==/!= 'c'"""
        cp = SX.cmp_parts(cond)
        if not cp:
            return False
        op, l, r = cp
        if not pol:
            op = {'==': '!=', '!=': '=='}.get(op, op)
        for a, b in ((l, r), (r, l)):
            a = _peel(SX.strip(a))
            g = self.callee_of(a) if SX.is_node(a) else None
            if g is not None and g.short == 'peekNext' and SX.is_node(b) and b['k'] == 'char':
                if (op == '==' and b['v'] != 0) or (op == '!=' and b['v'] == 0):
                    return True
        return False

    def _cursor_write(self, w, C, N, N2=0):
        op = w[2]
        if op == '++' or (op == '+=' and _pos_const(w[1])):
            one = op == '++' or (_peel(w[1]).get('v') == 1)
            if N or not self.require_n:
                return (1, N2 if one else 0, 0, 0)
            return (C, 0, 0, 0)
        # assignment (e.g. restoring a saved cursor): progress made so far can no longer be relied on
        return (0, 0, 0, 0)

    # ---- summaries ----------------------------------------------------------------------------
    def _summ(self, f):
        g = self.p.cfg(f)
        res = {}
        for initN in (0, 1):
            ins, outs = self.run(g, g.entry, (0, initN, 0, 0))
            ok = True
            anyexit = False
            for p in g.exit.pred:
                if p.id in outs:
                    anyexit = True
                    if not outs[p.id][0]:
                        ok = False
            res['MC%d' % initN] = ok   # vacuously true when no normal exit (always throws)
            if initN == 0:
                rets = [n for n in g.nodes if n.kind == 'return' and n.id in ins]
                mt = nt = nf = f.ret == 'bool' and bool(rets)
                for r in rets:
                    v = r.e.get('e')
                    C, N, X, _n2 = ins[r.id]
                    can_true = not (SX.is_node(v) and v['k'] == 'bool' and not v['v'])
                    can_false = not (SX.is_node(v) and v['k'] == 'bool' and v['v'])
                    # a returned comparison is itself evidence
                    n_if_true = N or (SX.is_node(v) and self.n_evidence(v, True, r))
                    n_if_false = N or (SX.is_node(v) and self.n_evidence(v, False, r))
                    if can_true and not C:
                        mt = False
                    if can_true and not n_if_true:
                        nt = False
                    if can_false and not n_if_false:
                        nf = False
                res['MT'], res['NT'], res['NF'] = mt, nt, nf
        return res

    def _fix(self):
        changed = True
        rounds = 0
        while changed:
            changed = False
            rounds += 1
            if rounds > 40:
                raise AnalysisBroken('summary fixpoint did not converge')
            for f in self.fns:
                if f.kind not in ('method', 'function'):
                    continue
                r = self._summ(f)
                for name, s in (('MC0', self.MC0), ('MC1', self.MC1), ('MT', self.MT), ('NT', self.NT), ('NF', self.NF)):
                    if r.get(name) and f.key not in s:
                        s.add(f.key)
                        changed = True

    # ---- loops --------------------------------------------------------------------------------
    def loops(self, f):
        g = self.p.cfg(f)
        return g, [n for n in g.nodes if n.kind == 'loophead']

    def check_loop(self, g, head):
        """(ok, kind, detail)"""
        s = head.e
        k = s['k']
        body_ids = g.reachable([head])
        back = g.reachable([head], forward=False)
        region = (body_ids & back) | {head.id}
        if k == 'forrange':
            # container must not be grown inside the body
            rng = SX.show(s['range'])
            grows = [n for n in SX.walk(s['body'], into_lambdas=False) if n['k'] == 'mcall' and SX.short(n['callee']) in
                     ('push_back', 'emplace_back', 'insert', 'emplace', 'erase', 'resize', 'clear', 'pop_back') and SX.show(n.get('obj')) == rng]
            return (not grows, 'range-for', 'container %s %s' % (rng[:40], 'is modified in the body' if grows else 'not modified in the body'))
        cond = s.get('c')
        loop_cond_text = None
        progress_vars = set()
        flag_var = None
        if SX.is_node(cond):
            if cond['k'] == 'ref' and cond.get('kind') == 'var':
                flag_var = cond.get('id')
            else:
                loop_cond_text = SX.show(cond)
            # local index bounded above by the condition: v < bound (bound not written in the body)
            for x in SX.walk(cond):
                cp = SX.cmp_parts(x) if x['k'] in ('bin', 'opcall', 'un') else None
                if cp and cp[0] in ('<', '<=', '!='):
                    l = _peel(cp[1])
                    # v or v + k
                    while SX.is_node(l) and l['k'] == 'bin' and l['op'] == '+':
                        l = _peel(l['l'])
                    if SX.is_node(l) and l['k'] == 'ref' and l.get('kind') in ('var', 'param') and 'int' in l.get('t', '') or \
                            (SX.is_node(l) and l['k'] == 'ref' and l.get('kind') in ('var', 'param') and 'long' in l.get('t', '')):
                        progress_vars.add(l.get('id'))
        ins, outs = self.run(g, head, (0, 0, 0, 0), region=region, loop_cond_text=loop_cond_text, progress_vars=progress_vars, flag_var=flag_var)
        bad = []
        for p in head.pred:
            if p.id in region and p.id in outs and p is not head:
                C, N, X, _n2 = outs[p.id]
                if not (C or X):
                    bad.append(p)
        if bad:
            path = g.witness_path(head, bad[0]) or []
            return (False, 'progress', 'a path returns to the loop head without consuming input or falsifying the condition: ' +
                    ' → '.join('L%s' % x.ln for x in path if x.ln)[:200])
        kind = 'flag' if flag_var else ('counted/progress' if progress_vars else 'progress')
        return (True, kind, 'every cyclic path consumes input, advances a bounded index or falsifies the loop condition')

    # ---- left recursion -----------------------------------------------------------------------
    def first_call_graph(self):
        edges = {}
        for f in self.fns:
            if f.kind not in ('method', 'function'):
                continue
            g = self.p.cfg(f)
            ins, outs = self.run(g, g.entry, (0, 0, 0, 0))
            for n in g.nodes:
                if n.kind == 'call' and n.id in ins and not ins[n.id][0]:
                    t = self.callee_of(n.e)
                    if t is not None and t.key in self.moves:
                        edges.setdefault(f.key, set()).add(t.key)
        return edges

    def cycles(self):
        edges = self.first_call_graph()
        # Tarjan SCC
        index = {}
        low = {}
        stack = []
        on = set()
        out = []
        counter = [0]
        import sys
        sys.setrecursionlimit(10000)

        def sc(v):
            index[v] = low[v] = counter[0]
            counter[0] += 1
            stack.append(v)
            on.add(v)
            for w in edges.get(v, ()):
                if w not in index:
                    sc(w)
                    low[v] = min(low[v], low[w])
                elif w in on:
                    low[v] = min(low[v], index[w])
            if low[v] == index[v]:
                comp = []
                while True:
                    w = stack.pop()
                    on.discard(w)
                    comp.append(w)
                    if w == v:
                        break
                if len(comp) > 1 or v in edges.get(v, ()):
                    out.append(comp)
        for v in list(edges):
            if v not in index:
                sc(v)
        return out, edges


def _peel(e):
    while SX.is_node(e) and e['k'] == 'cast':
        e = e['e']
    return e


def _pos_const(e):
    e = _peel(e)
    return SX.is_node(e) and e['k'] == 'int' and e['v'] > 0


def _is_increment_of(e, vid):
    e = _peel(e)
    return SX.is_node(e) and e['k'] == 'bin' and e['op'] == '+' and SX.is_node(e['l']) and e['l'].get('id') == vid and _pos_const(e['r'])
