"""K-TRY: exception-escape analysis.

A *site* is a call to a library function that is documented to throw on the value of its argument
(std::sto*, container at(), std::get, optional::value, substr with a computed position).  A site is
*protected* when, in its own function or in every caller chain up to the analysis roots, it is
lexically enclosed by a try whose handlers catch every exception type it can raise and do not rethrow
it unchanged.  A site that reaches a root unprotected lets a raw C++ exception text surface in place of
a categorised diagnostic (or aborts the process when the root has no handler at all)."""
from . import sx as SX

SUPER = {
    'std::out_of_range': ['std::out_of_range', 'std::logic_error', 'std::exception'],
    'std::invalid_argument': ['std::invalid_argument', 'std::logic_error', 'std::exception'],
    'std::bad_variant_access': ['std::bad_variant_access', 'std::exception'],
    'std::bad_optional_access': ['std::bad_optional_access', 'std::exception'],
    'std::length_error': ['std::length_error', 'std::logic_error', 'std::exception'],
}


def raises(call):
    """Exception types a call-like node can raise *because of the value of its arguments*; [] if none."""
    k = call.get('k')
    name = SX.callee(call)
    sh = SX.short(name)
    if k == 'call' and name.startswith('std::') and sh in ('stoi', 'stol', 'stoll', 'stoul', 'stoull', 'stof', 'stod', 'stold'):
        return ['std::out_of_range', 'std::invalid_argument']
    if k == 'mcall' and sh == 'at' and name.startswith('std::'):
        return ['std::out_of_range']
    if k == 'call' and name == 'std::get' and 'variant' in (call.get('targs', '') + SX.show(call)):
        return ['std::bad_variant_access']
    if k == 'mcall' and sh == 'value' and 'optional' in name:
        return ['std::bad_optional_access']
    if k == 'mcall' and sh == 'substr' and 'basic_string' in name or (k == 'mcall' and sh == 'substr' and name.startswith('std::')):
        a = SX.real_args(call)
        if a and not (SX.is_node(a[0]) and a[0]['k'] == 'int' and a[0]['v'] == 0):
            return ['std::out_of_range']
    return []


def parent_map(body):
    pm = {}
    stack = [body]
    while stack:
        n = stack.pop()
        for c in SX.children(n):
            pm[id(c)] = n
            stack.append(c)
    return pm


def _norm_type(t):
    return t.replace('const ', '').replace(' &', '').replace('&', '').strip()


def handlers_cover(trynode, types):
    """All exception types are caught by some handler of trynode that does not simply rethrow."""
    for t in types:
        ok = False
        for h in trynode['handlers']:
            ht = _norm_type(h['type'])
            if ht == '...' or ht in SUPER.get(t, [t]):
                # a handler whose body is a bare `throw;` re-raises the raw exception
                rethrow = any(n['k'] == 'throw' and n.get('type') == 'rethrow' for n in SX.walk(h['body'], into_lambdas=False))
                converts = any(n['k'] == 'throw' and n.get('type') != 'rethrow' for n in SX.walk(h['body'], into_lambdas=False))
                if rethrow and not converts:
                    continue
                ok = True
                break
        if not ok:
            return False
    return True


def enclosing_try(f, node, types, pm=None):
    """Innermost try in f's body that encloses `node` in its *try block* and covers `types`."""
    pm = pm or parent_map(f.body)
    cur = node
    while id(cur) in pm:
        par = pm[id(cur)]
        if par.get('k') == 'try' and par['body'] is cur and handlers_cover(par, types):
            return par
        if par.get('k') == 'lambda':
            return None
        cur = par
    return None


class Escape:
    def __init__(self, prog, roots):
        self.p = prog
        self.roots = {id(r) for r in roots}
        self.reach = {id(f): f for f in prog.reach(roots)}
        self._pm = {}
        self._memo = {}

    def pm(self, f):
        k = id(f)
        if k not in self._pm:
            self._pm[k] = parent_map(f.body)
        return self._pm[k]

    def sites(self):
        for f in self.reach.values():
            if not f.body:
                continue
            for n in SX.walk(f.body, into_lambdas=False):
                if n['k'] in ('call', 'mcall'):
                    t = raises(n)
                    if t:
                        yield f, n, t

    def protected(self, f, node, types, depth=0, seen=None):
        """(True, reason) | (False, escape chain as list of function names)"""
        seen = seen or set()
        if enclosing_try(f, node, types, self.pm(f)):
            return True, 'try in ' + f.short
        if depth > 12 or id(f) in seen:
            return True, 'recursion'
        seen = seen | {id(f)}
        if f.kind == 'lambda' and f.parent is not None:
            return self._lambda_protected(f, types, depth, seen)
        if id(f) in self.roots:
            return False, [f.name]
        callers = [(g, n) for g, n in self.p.callers(f) if id(g) in self.reach]
        if not callers:
            return False, [f.name]
        for g, n in callers:
            ok, why = self.protected(g, n, types, depth + 1, seen)
            if not ok:
                return False, [f.name] + why
        return True, 'all callers protected'

    def _lambda_protected(self, lf, types, depth, seen):
        P = lf.parent
        lam = lf.node
        pm = self.pm(P)
        par = pm.get(id(lam))
        # (a) passed directly as argument i of a call of a local closure W whose body invokes parameter i only inside an adequate try
        if par is not None and par.get('k') == 'opcall' and par['op'] == '()' and lam in par['args'][1:]:
            i = par['args'].index(lam) - 1
            w = par['args'][0]
            wl = self._closure_of(P, w)
            if wl is not None and i < len(wl.params):
                pid = wl.params[i]['id']
                wpm = self.pm(wl)
                inv = [n for n in SX.walk(wl.body, into_lambdas=True)
                       if n['k'] == 'call' and SX.is_node(n.get('calleeExpr')) and n['calleeExpr'].get('id') == pid]
                inv += [n for n in SX.walk(wl.body, into_lambdas=True)
                        if n['k'] == 'opcall' and n['op'] == '()' and n['args'] and SX.is_node(n['args'][0]) and n['args'][0].get('id') == pid]
                if inv and all(enclosing_try(wl, n, types, wpm) for n in inv):
                    return True, 'invoked under try in closure'
                # otherwise the closure call site itself must be protected
            return self.protected(P, par, types, depth + 1, seen)
        # (b) stored in a local and invoked in P
        if par is not None and par.get('k') == 'var':
            vid = par['id']
            inv = [n for n in SX.walk(P.body, into_lambdas=True)
                   if n['k'] == 'opcall' and n['op'] == '()' and n['args'] and SX.is_node(n['args'][0]) and n['args'][0].get('id') == vid]
            passed = [n for n in SX.walk(P.body, into_lambdas=True)
                      if n['k'] == 'ref' and n.get('id') == vid]
            if inv and len(passed) == len(inv):
                for n in inv:
                    ok, why = self.protected(P, n, types, depth + 1, seen)
                    if not ok:
                        return False, [lf.name] + why
                return True, 'all invocations protected'
        # (c) escapes: treat the definition point as the invocation point (callbacks run synchronously in this code base)
        return self.protected(P, lam, types, depth + 1, seen)

    def _closure_of(self, P, ref):
        if not (SX.is_node(ref) and ref['k'] == 'ref'):
            return None
        for lf in P.lambdas:
            par = self.pm(P).get(id(lf.node))
            if par is not None and par.get('k') == 'var' and par['id'] == ref.get('id'):
                return lf
        return None
