"""Fact store: runs the bx extractor over every translation unit of the analysed tree and
indexes the result.  Nothing from the analysed tree is executed."""
import glob
import hashlib
import json
import os
import subprocess
import sys
from concurrent.futures import ThreadPoolExecutor

VERIF = os.path.dirname(os.path.dirname(os.path.dirname(os.path.abspath(__file__))))
CACHE = os.path.join(VERIF, '.cache')
BX_SRC = os.path.join(VERIF, 'sa', 'extract', 'bx.cc')
BX_BIN = os.path.join(CACHE, 'bx')


class AnalysisBroken(Exception):
    """Raised when the analysis itself cannot be carried out (exit 2): vanished anchor,
    unrecognised idiom, parse failure, instance count below the confirmed minimum."""


def repo_root():
    return os.path.abspath(os.environ.get('BLOCH_REPO', '/repo'))


def build_bx():
    os.makedirs(CACHE, exist_ok=True)
    stamp = BX_BIN + '.sha'
    h = hashlib.sha256(open(BX_SRC, 'rb').read()).hexdigest()
    if os.path.exists(BX_BIN) and os.path.exists(stamp) and open(stamp).read() == h:
        return
    flags = subprocess.check_output(['llvm-config-14', '--cxxflags'], text=True).split()
    tmp = BX_BIN + '.tmp.%d' % os.getpid()
    cmd = ['clang++'] + flags + ['-fno-rtti', '-O1', BX_SRC, '-o', tmp,
                                 '/usr/lib/llvm-14/lib/libclang-cpp.so.14', '/usr/lib/llvm-14/lib/libLLVM-14.so']
    r = subprocess.run(cmd, capture_output=True, text=True)
    if r.returncode != 0:
        raise AnalysisBroken('cannot build extractor: ' + r.stderr[-2000:])
    os.replace(tmp, BX_BIN)
    open(stamp, 'w').write(h)


def translation_units(repo):
    src = os.path.join(repo, 'src')
    tus = sorted(glob.glob(os.path.join(src, 'bloch', '**', '*.cpp'), recursive=True))
    main = os.path.join(src, 'main.cpp')
    if os.path.exists(main):
        tus.append(main)
    # cross-check with the build description: every TU must be named in src/CMakeLists.txt
    cm = open(os.path.join(src, 'CMakeLists.txt')).read()
    for t in tus:
        rel = os.path.relpath(t, src)
        if rel not in cm:
            raise AnalysisBroken('translation unit %s is not listed in src/CMakeLists.txt' % rel)
    import re
    for m in re.finditer(r'\$\{CMAKE_CURRENT_SOURCE_DIR\}/(\S+\.cpp)', cm):
        p = os.path.join(src, m.group(1))
        if p not in tus:
            raise AnalysisBroken('CMakeLists.txt lists %s which is not on disk' % m.group(1))
    return tus


def tree_hash(repo):
    h = hashlib.sha256()
    src = os.path.join(repo, 'src')
    files = sorted(glob.glob(os.path.join(src, 'bloch', '**', '*.[ch]pp'), recursive=True)) + \
        [os.path.join(src, 'main.cpp'), os.path.join(src, 'CMakeLists.txt')]
    for f in files:
        if os.path.exists(f):
            h.update(os.path.relpath(f, repo).encode())
            h.update(open(f, 'rb').read())
    h.update(open(BX_SRC, 'rb').read())
    h.update(os.path.abspath(repo).encode())   # facts carry absolute paths
    return h.hexdigest()[:24]


def flags_for(repo, tu):
    fl = ['-std=gnu++20', '-I' + os.path.join(repo, 'src'), '-UNDEBUG', '-Wno-everything',
          '-DBLOCH_VERSION="0.0.0"', '-DBLOCH_COMMIT_HASH="verif"']
    if tu.endswith('update_manager.cpp') or tu.endswith('http_client.cpp'):
        fl.append('-DCPPHTTPLIB_OPENSSL_SUPPORT')
    return fl


def extract(repo=None):
    """Returns the list of per-TU fact documents for the tree at `repo` (cached by content hash)."""
    repo = repo or repo_root()
    build_bx()
    tus = translation_units(repo)
    key = tree_hash(repo)
    cdir = os.path.join(CACHE, 'facts', key)
    os.makedirs(cdir, exist_ok=True)

    def one(tu):
        out = os.path.join(cdir, os.path.relpath(tu, repo).replace('/', '__') + '.json')
        if not os.path.exists(out):
            tmp = out + '.tmp.%d' % os.getpid()
            cmd = [BX_BIN, '--root=' + os.path.join(repo, 'src'), '-o', tmp, tu, '--'] + flags_for(repo, tu)
            r = subprocess.run(cmd, capture_output=True, text=True)
            if r.returncode != 0 or not os.path.exists(tmp):
                raise AnalysisBroken('extractor failed on %s: %s' % (tu, (r.stderr or r.stdout)[-1500:]))
            os.replace(tmp, out)
        d = json.load(open(out))
        if d.get('errors'):
            raise AnalysisBroken('translation unit %s does not parse' % tu)
        return d

    with ThreadPoolExecutor(max_workers=min(16, len(tus))) as ex:
        docs = list(ex.map(one, tus))
    _prune_cache(os.path.join(CACHE, 'facts'), keep=key)
    return docs


def _prune_cache(d, keep, maxn=6):
    try:
        ents = [(os.path.getmtime(os.path.join(d, e)), e) for e in os.listdir(d) if e != keep]
        ents.sort()
        import shutil
        import time
        now = time.time()
        for mt, e in ents[:-maxn] if len(ents) > maxn else []:
            if now - mt > 900:   # never remove a cache another concurrent check may still be reading
                shutil.rmtree(os.path.join(d, e), ignore_errors=True)
    except OSError:
        pass


class Function:
    def __init__(self, d, repo):
        self.d = d
        self.name = d['name']
        self.short = self.name.split('::')[-1]
        self.file = d['file']
        self.rel = os.path.relpath(d['file'], repo)
        self.ln = d['ln']
        self.endln = d['endln']
        self.sig = d.get('sig', '()')
        self.kind = d['kind']
        self.cls = d.get('cls')
        self.params = d['params']
        self.body = d['body']
        self.ret = d.get('ret', '')
        self.key = self.name + self.sig
        self.lambdas = []   # filled lazily
        self.parent = None

    def loc(self):
        return '%s:%d' % (self.rel, self.ln)

    def __repr__(self):
        return '<fn %s%s @%s>' % (self.name, self.sig, self.loc())


class Facts:
    def __init__(self, repo=None):
        self.repo = repo or repo_root()
        docs = extract(self.repo)
        self.tus = [d['tu'] for d in docs]
        self.functions = []
        self.records = {}
        self.globals = {}
        self.enums = {}
        seen = set()
        self.renamed = {}
        if not os.environ.get('BLOCHSA_NO_CANON'):
            self._canonicalise(docs)
        for d in docs:
            for f in d['functions']:
                k = (f['name'], f['file'], f['ln'])
                if k in seen:
                    continue
                seen.add(k)
                self.functions.append(Function(f, self.repo))
            for r in d['records']:
                self.records.setdefault(r['name'], r)
            for g in d['globals']:
                self.globals.setdefault((g['name'], g['file'], g['ln']), g)
            for e in d['enums']:
                self.enums.setdefault(e['name'], e)
        self.by_name = {}
        self.by_key = {}
        for f in self.functions:
            self.by_name.setdefault(f.name, []).append(f)
            self.by_key.setdefault(f.key, []).append(f)

    # ---- canonical names -------------------------------------------------------------------
    def _canonicalise(self, docs):
        """Present renamed members / methods / file-local functions under the names the rule modules use (sa/blochsa/canon_names.json,
        regenerated by sa/gen_canon_names.py).  A canonical name that is gone from its class is matched to a name that is new in that
        class and has the same type (fields) or signature, return type, constness and kind (methods); several candidates of one
        fingerprint are paired in declaration order when their numbers agree, otherwise nothing is mapped.  The extracted documents are
        rewritten in memory (function names, callee names, member references, field lists); `self.renamed` records what was
        mapped.  Nothing happens when every canonical name is present."""
        import json as _json
        p = os.path.join(os.path.dirname(os.path.abspath(__file__)), 'canon_names.json')
        if not os.path.exists(p):
            return
        T = _json.load(open(p))
        recs = {}
        funcs = []
        for d in docs:
            for r in d['records']:
                recs.setdefault(r['name'], r)
            funcs.extend(d['functions'])

        def pair(missing, extra, keyf_m, keyf_x):
            out = {}
            groups = {}
            for m in missing:
                groups.setdefault(keyf_m(m), [[], []])[0].append(m)
            for x in extra:
                k = keyf_x(x)
                if k in groups:
                    groups[k][1].append(x)
            for k, (ms, xs) in groups.items():
                if ms and len(ms) == len(xs):
                    for m, x in zip(ms, xs):
                        out[x[0]] = m[0]
            return out
        fmap, mmap, gmap = {}, {}, {}      # (record, new field) → old ; (record, new method) → old ; qualified free fn → old
        for rname, t in T.get('records', {}).items():
            r = recs.get(rname)
            if r is None:
                continue
            cur = [(x['name'], x['type']) for x in r.get('fields', [])]
            can = [tuple(x) for x in t['fields']]
            miss = [c for c in can if c[0] not in {x[0] for x in cur}]
            extra = [x for x in cur if x[0] not in {c[0] for c in can}]
            for new, old in pair(miss, extra, lambda m: m[1], lambda x: x[1]).items():
                fmap[(rname, new)] = old
            defs = sorted([f for f in funcs if f.get('cls') == rname and f.get('kind') == 'method'], key=lambda f: (f['file'], f['ln']))
            seen_d = set()
            curm = []
            for f in defs:
                sh = f['name'].split('::')[-1]
                k = (sh, f.get('sig', '()'))
                if k in seen_d:
                    continue
                seen_d.add(k)
                curm.append((sh, f.get('sig', '()'), f.get('ret', ''), bool(f.get('const')), bool(f.get('static'))))
            canm = [tuple(x[:5]) for x in t['methods']]
            missm = [c for c in canm if c[0] not in {x[0] for x in curm}]
            extram = [x for x in curm if x[0] not in {c[0] for c in canm}]
            # second fingerprint: the data members of the class the method works on (with renamed members under their old names);
            # a new method that touches other members than the vanished one is a new helper, not a rename
            canfp = {(x[0], x[1]): tuple(x[6]) for x in t['methods'] if len(x) > 6}
            fnew = {new: old for (r_, new), old in fmap.items() if r_ == rname}
            fnames = {x['name'] for x in r.get('fields', [])}

            def fp_of(short, sig):
                out_ = set()

                def rec_(n):
                    if isinstance(n, list):
                        for x in n:
                            rec_(x)
                    elif isinstance(n, dict):
                        if n.get('k') == 'member' and isinstance(n.get('q'), str) and n['q'].startswith(rname + '::') and n.get('name') in fnames:
                            out_.add(fnew.get(n['name'], n['name']))
                        for v in n.values():
                            if isinstance(v, (dict, list)):
                                rec_(v)
                for f_ in defs:
                    if f_['name'].split('::')[-1] == short and f_.get('sig', '()') == sig:
                        rec_(f_.get('body'))
                return tuple(sorted(out_))
            for new, old in pair(missm, extram, lambda m: m[1:], lambda x: x[1:]).items():
                osig = [c for c in canm if c[0] == old]
                nsig = [x for x in curm if x[0] == new]
                if canfp and osig and nsig and (old, osig[0][1]) in canfp and canfp[(old, osig[0][1])] != fp_of(new, nsig[0][1]):
                    continue
                mmap[(rname, new)] = old
        for rel, fl in T.get('files', {}).items():
            path = os.path.join(self.repo, rel)
            cur = sorted([f for f in funcs if f.get('cls') is None and f.get('kind') == 'function' and f['file'] == path], key=lambda f: f['ln'])
            curk = []
            seen_d = set()
            for f in cur:
                if (f['name'], f.get('sig')) in seen_d:
                    continue
                seen_d.add((f['name'], f.get('sig')))
                curk.append((f['name'], f.get('sig', '()'), f.get('ret', '')))
            can = [tuple(x) for x in fl]
            miss = [c for c in can if c[0] not in {x[0] for x in curk}]
            extra = [x for x in curk if x[0] not in {c[0] for c in can}]
            for new, old in pair(miss, extra, lambda m: m[1:], lambda x: x[1:]).items():
                gmap[new] = old
        if not (fmap or mmap or gmap):
            return
        qm = {r + '::' + new: r + '::' + old for (r, new), old in mmap.items()}
        qm.update(gmap)
        qf = {r + '::' + new: (r + '::' + old, old) for (r, new), old in fmap.items()}
        self.renamed = {'methods': qm, 'fields': {k: v[0] for k, v in qf.items()}}

        def rw(n):
            if isinstance(n, list):
                for x in n:
                    rw(x)
                return
            if not isinstance(n, dict):
                return
            c = n.get('callee')
            if isinstance(c, str) and c in qm:
                n['callee'] = qm[c]
            if n.get('k') == 'member' and n.get('q') in qf:
                n['q'], n['name'] = qf[n['q']]
            if n.get('k') == 'ref' and n.get('name') in qm and n.get('kind') not in ('var', 'param'):
                n['name'] = qm[n['name']]
            for v in n.values():
                if isinstance(v, (dict, list)):
                    rw(v)
        for d in docs:
            for f in d['functions']:
                if f['name'] in qm:
                    f['name'] = qm[f['name']]
                f['overrides'] = [qm.get(o, o) for o in f.get('overrides', [])]
                for i in f.get('inits', []) or []:
                    if f.get('cls') and (f['cls'], i.get('member')) in fmap:
                        i['member'] = fmap[(f['cls'], i['member'])]
                rw(f.get('body'))
                rw(f.get('inits'))
            for r in d['records']:
                for x in r.get('fields', []):
                    if (r['name'], x['name']) in fmap:
                        x['name'] = fmap[(r['name'], x['name'])]
                    rw(x.get('init'))
                for m in r.get('methods', []):
                    if (r['name'], m.get('name')) in mmap:
                        m['name'] = mmap[(r['name'], m['name'])]
            for g in d['globals']:
                rw(g.get('init'))

    # ---- lookup helpers -------------------------------------------------------------------
    def fn(self, qname, sig=None, required=True):
        """Unique function by qualified-name suffix (and optional parameter-signature substring)."""
        c = [f for f in self.functions if f.name == qname or f.name.endswith('::' + qname)]
        if sig is not None:
            c = [f for f in c if sig in f.sig]
        if len(c) == 1:
            return c[0]
        if not c:
            if required:
                raise AnalysisBroken('anchor function %s%s not found' % (qname, ' ' + sig if sig else ''))
            return None
        raise AnalysisBroken('anchor function %s%s is ambiguous (%d candidates)' % (qname, ' ' + sig if sig else '', len(c)))

    def fns(self, qname):
        return [f for f in self.functions if f.name == qname or f.name.endswith('::' + qname)]

    def record(self, qname, required=True):
        c = [r for n, r in self.records.items() if n == qname or n.endswith('::' + qname)]
        if len(c) == 1:
            return c[0]
        if required:
            raise AnalysisBroken('anchor record %s not found or ambiguous (%d)' % (qname, len(c)))
        return None

    def in_file(self, suffix):
        return [f for f in self.functions if f.file.endswith(suffix)]

    def subclasses(self, base_qname):
        """All records deriving (transitively) from the record named base_qname."""
        out = []
        changed = True
        names = {base_qname}
        while changed:
            changed = False
            for n, r in self.records.items():
                if n in names:
                    continue
                if any(b in names for b in r['bases']):
                    names.add(n)
                    out.append(r)
                    changed = True
        return out
