"""Fact store: runs the bx extractor over every translation unit of the analysed tree and
indexes the result.  Nothing from the analysed tree is executed."""
import glob
import hashlib
import json
import os
import subprocess
import sys
from concurrent.futures import ThreadPoolExecutor

VERIF = os.path.dirname(os.path.dirname(os.path.dirname(os.path.abspath(__file__))))
CACHE = os.path.join(VERIF, '.cache')
BX_SRC = os.path.join(VERIF, 'sa', 'extract', 'bx.cc')
BX_BIN = os.path.join(CACHE, 'bx')


class AnalysisBroken(Exception):
    """Raised when the analysis itself cannot be carried out (exit 2): vanished anchor,
    unrecognised idiom, parse failure, instance count below the confirmed minimum."""


def repo_root():
    return os.path.abspath(os.environ.get('BLOCH_REPO', '/repo'))


def build_bx():
    os.makedirs(CACHE, exist_ok=True)
    stamp = BX_BIN + '.sha'
    h = hashlib.sha256(open(BX_SRC, 'rb').read()).hexdigest()
    if os.path.exists(BX_BIN) and os.path.exists(stamp) and open(stamp).read() == h:
        return
    flags = subprocess.check_output(['llvm-config-14', '--cxxflags'], text=True).split()
    tmp = BX_BIN + '.tmp.%d' % os.getpid()
    cmd = ['clang++'] + flags + ['-fno-rtti', '-O1', BX_SRC, '-o', tmp,
                                 '/usr/lib/llvm-14/lib/libclang-cpp.so.14', '/usr/lib/llvm-14/lib/libLLVM-14.so']
    r = subprocess.run(cmd, capture_output=True, text=True)
    if r.returncode != 0:
        raise AnalysisBroken('cannot build extractor: ' + r.stderr[-2000:])
    os.replace(tmp, BX_BIN)
    open(stamp, 'w').write(h)


def translation_units(repo):
    src = os.path.join(repo, 'src')
    tus = sorted(glob.glob(os.path.join(src, 'bloch', '**', '*.cpp'), recursive=True))
    main = os.path.join(src, 'main.cpp')
    if os.path.exists(main):
        tus.append(main)
    # cross-check with the build description: every TU must be named in src/CMakeLists.txt
    cm = open(os.path.join(src, 'CMakeLists.txt')).read()
    for t in tus:
        rel = os.path.relpath(t, src)
        if rel not in cm:
            raise AnalysisBroken('translation unit %s is not listed in src/CMakeLists.txt' % rel)
    import re
    for m in re.finditer(r'\$\{CMAKE_CURRENT_SOURCE_DIR\}/(\S+\.cpp)', cm):
        p = os.path.join(src, m.group(1))
        if p not in tus:
            raise AnalysisBroken('CMakeLists.txt lists %s which is not on disk' % m.group(1))
    return tus


def tree_hash(repo):
    h = hashlib.sha256()
    src = os.path.join(repo, 'src')
    files = sorted(glob.glob(os.path.join(src, 'bloch', '**', '*.[ch]pp'), recursive=True)) + \
        [os.path.join(src, 'main.cpp'), os.path.join(src, 'CMakeLists.txt')]
    for f in files:
        if os.path.exists(f):
            h.update(os.path.relpath(f, repo).encode())
            h.update(open(f, 'rb').read())
    h.update(open(BX_SRC, 'rb').read())
    h.update(os.path.abspath(repo).encode())   # facts carry absolute paths
    return h.hexdigest()[:24]


def flags_for(repo, tu):
    fl = ['-std=gnu++20', '-I' + os.path.join(repo, 'src'), '-UNDEBUG', '-Wno-everything',
          '-DBLOCH_VERSION="0.0.0"', '-DBLOCH_COMMIT_HASH="verif"']
    if tu.endswith('update_manager.cpp') or tu.endswith('http_client.cpp'):
        fl.append('-DCPPHTTPLIB_OPENSSL_SUPPORT')
    return fl


def extract(repo=None):
    """Returns the list of per-TU fact documents for the tree at `repo` (cached by content hash)."""
    repo = repo or repo_root()
    build_bx()
    tus = translation_units(repo)
    key = tree_hash(repo)
    cdir = os.path.join(CACHE, 'facts', key)
    os.makedirs(cdir, exist_ok=True)

    def one(tu):
        out = os.path.join(cdir, os.path.relpath(tu, repo).replace('/', '__') + '.json')
        if not os.path.exists(out):
            tmp = out + '.tmp.%d' % os.getpid()
            cmd = [BX_BIN, '--root=' + os.path.join(repo, 'src'), '-o', tmp, tu, '--'] + flags_for(repo, tu)
            r = subprocess.run(cmd, capture_output=True, text=True)
            if r.returncode != 0 or not os.path.exists(tmp):
                raise AnalysisBroken('extractor failed on %s: %s' % (tu, (r.stderr or r.stdout)[-1500:]))
            os.replace(tmp, out)
        d = json.load(open(out))
        if d.get('errors'):
            raise AnalysisBroken('translation unit %s does not parse' % tu)
        return d

    with ThreadPoolExecutor(max_workers=min(16, len(tus))) as ex:
        docs = list(ex.map(one, tus))
    _prune_cache(os.path.join(CACHE, 'facts'), keep=key)
    return docs


def _prune_cache(d, keep, maxn=6):
    try:
        ents = [(os.path.getmtime(os.path.join(d, e)), e) for e in os.listdir(d) if e != keep]
        ents.sort()
        import shutil
        import time
        now = time.time()
        for mt, e in ents[:-maxn] if len(ents) > maxn else []:
            if now - mt > 900:   # never remove a cache another concurrent check may still be reading
                shutil.rmtree(os.path.join(d, e), ignore_errors=True)
    except OSError:
        pass


class Function:
    def __init__(self, d, repo):
        self.d = d
        self.name = d['name']
        self.short = self.name.split('::')[-1]
        self.file = d['file']
        self.rel = os.path.relpath(d['file'], repo)
        self.ln = d['ln']
        self.endln = d['endln']
        self.sig = d.get('sig', '()')
        self.kind = d['kind']
        self.cls = d.get('cls')
        self.params = d['params']
        self.body = d['body']
        self.ret = d.get('ret', '')
        self.key = self.name + self.sig
        self.lambdas = []   # filled lazily
        self.parent = None

    def loc(self):
        return '%s:%d' % (self.rel, self.ln)

    def __repr__(self):
        return '<fn %s%s @%s>' % (self.name, self.sig, self.loc())


class Facts:
    def __init__(self, repo=None):
        self.repo = repo or repo_root()
        docs = extract(self.repo)
        self.tus = [d['tu'] for d in docs]
        self.functions = []
        self.records = {}
        self.globals = {}
        self.enums = {}
        seen = set()
        for d in docs:
            for f in d['functions']:
                k = (f['name'], f['file'], f['ln'])
                if k in seen:
                    continue
                seen.add(k)
                self.functions.append(Function(f, self.repo))
            for r in d['records']:
                self.records.setdefault(r['name'], r)
            for g in d['globals']:
                self.globals.setdefault((g['name'], g['file'], g['ln']), g)
            for e in d['enums']:
                self.enums.setdefault(e['name'], e)
        self.by_name = {}
        self.by_key = {}
        for f in self.functions:
            self.by_name.setdefault(f.name, []).append(f)
            self.by_key.setdefault(f.key, []).append(f)

    # ---- lookup helpers -------------------------------------------------------------------
    def fn(self, qname, sig=None, required=True):
        """Unique function by qualified-name suffix (and optional parameter-signature substring)."""
        c = [f for f in self.functions if f.name == qname or f.name.endswith('::' + qname)]
        if sig is not None:
            c = [f for f in c if sig in f.sig]
        if len(c) == 1:
            return c[0]
        if not c:
            if required:
                raise AnalysisBroken('anchor function %s%s not found' % (qname, ' ' + sig if sig else ''))
            return None
        raise AnalysisBroken('anchor function %s%s is ambiguous (%d candidates)' % (qname, ' ' + sig if sig else '', len(c)))

    def fns(self, qname):
        return [f for f in self.functions if f.name == qname or f.name.endswith('::' + qname)]

    def record(self, qname, required=True):
        c = [r for n, r in self.records.items() if n == qname or n.endswith('::' + qname)]
        if len(c) == 1:
            return c[0]
        if required:
            raise AnalysisBroken('anchor record %s not found or ambiguous (%d)' % (qname, len(c)))
        return None

    def in_file(self, suffix):
        return [f for f in self.functions if f.file.endswith(suffix)]

    def subclasses(self, base_qname):
        """All records deriving (transitively) from the record named base_qname."""
        out = []
        changed = True
        names = {base_qname}
        while changed:
            changed = False
            for n, r in self.records.items():
                if n in names:
                    continue
                if any(b in names for b in r['bases']):
                    names.add(n)
                    out.append(r)
                    changed = True
        return out
