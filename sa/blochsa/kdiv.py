"""Signed-division hazards: every integer `/` or `%` with a non-constant divisor needs (1) a dominating
test that excludes a zero divisor and (2) — for signed types — the divisor -1 to have been examined on
every path to the operation (MIN % -1 and MIN / -1 trap on x86)."""
from . import sx as SX

INTS = ('int', 'long', 'long long', 'short', 'signed char', 'char')
UINTS = ('unsigned long', 'unsigned int', 'unsigned long long', 'unsigned short', 'unsigned char', 'size_t')


def int_const(e):
    while SX.is_node(e) and e['k'] in ('cast',):
        e = e['e']
    if SX.is_node(e) and e['k'] == 'int':
        return e['v']
    if SX.is_node(e) and e['k'] == 'float' and float(e['v']) == int(e['v']):
        return int(e['v'])
    if SX.is_node(e) and e['k'] == 'un' and e['op'] == '-':
        v = int_const(e['e'])
        return -v if v is not None else None
    return None


def cmp_with_const(cond, text):
    """If cond compares the expression rendered as `text` with an integer constant: (op, const)."""
    if not (SX.is_node(cond) and cond['k'] == 'bin' and cond['op'] in ('==', '!=', '<', '>', '<=', '>=')):
        return None
    l, r = cond['l'], cond['r']
    for a, b, flip in ((l, r, False), (r, l, True)):
        if SX.show(_peel(a)) == text:
            c = int_const(b)
            if c is not None:
                op = cond['op']
                if flip:
                    op = {'<': '>', '>': '<', '<=': '>=', '>=': '<='}.get(op, op)
                return op, c
    return None


def _peel(e):
    while SX.is_node(e) and e['k'] == 'cast':
        e = e['e']
    return e


def division_sites(f):
    for n in SX.walk(f.body, into_lambdas=False):
        if n['k'] in ('bin', 'cassign') and n['op'] in ('/', '%', '/=', '%=') and n.get('t') in INTS + UINTS:
            if int_const(n['r']) not in (None, 0):
                continue
            yield n


def check_site(g, n):
    """Returns (zero_guarded, minus1_examined, divisor text)."""
    d = _peel(n['r'])
    text = SX.show(d)
    node = None
    # the CFG node that evaluates this operation: find the first node whose expression contains n
    for cn in g.nodes:
        if cn.e is not None and cn.kind not in ('entry', 'exit', 'throwexit', 'edge', 'loophead', 'switch', 'case', 'tryentry', 'catch', 'rangeinit', 'break',
                                                'continue', 'ireturn') and _contains(cn, n):
            node = cn
            break
    if node is None:
        return None
    zero = False
    for ce, pol, _ in g.guards(node):
        c = cmp_with_const(ce, text)
        if c and ((c == ('==', 0) and not pol) or (c == ('!=', 0) and pol) or (c == ('>', 0) and pol) or (c == ('<=', 0) and not pol)):
            zero = True
        if SX.show(_peel(ce)) == text and pol:
            zero = True
    m1 = n.get('t') in UINTS
    if not m1:
        tests = [cn for cn in g.nodes if cn.kind == 'cond' and (cmp_with_const(cn.e, text) or (None, None))[1] == -1]
        m1 = bool(tests) and g.must_precede(tests, node)
    return zero, m1, text


def _contains(cn, n):
    e = cn.e
    if cn.kind == 'decl':
        e = e.get('init')
    if cn.kind == 'return':
        e = e.get('e')
    if not SX.is_node(e):
        return False
    return any(x is n for x in SX.walk(e, into_lambdas=False))
