"""Utilities over the simplified syntax trees ("sx") written by the bx extractor."""

CALL_KINDS = ('call', 'mcall', 'opcall', 'construct', 'new')


def is_node(n):
    return isinstance(n, dict) and 'k' in n


def children(n):
    """Direct sub-nodes (dict nodes with 'k'), in stored order; handler dicts of `try` are yielded too."""
    for key, v in n.items():
        if isinstance(v, dict):
            if 'k' in v or 'body' in v:
                yield v
        elif isinstance(v, list):
            for x in v:
                if isinstance(x, dict) and ('k' in x or 'body' in x):
                    yield x


def walk(n, into_lambdas=True):
    """Pre-order traversal of all nodes below (and including) n."""
    if not isinstance(n, dict):
        return
    stack = [n]
    while stack:
        x = stack.pop()
        if 'k' in x:
            yield x
            if x['k'] == 'lambda' and not into_lambdas and x is not n:
                continue
        cs = list(children(x))
        stack.extend(reversed(cs))


def callee(n):
    k = n.get('k')
    if k in ('call', 'mcall', 'opcall'):
        return n.get('callee') or ''
    if k == 'construct':
        return n.get('ctor', '')
    return ''


def short(name):
    return name.split('::')[-1] if name else name


def strip(e):
    """Peel value-preserving wrappers (casts to the same value, defaultarg)."""
    while is_node(e) and e['k'] in ('defaultarg',):
        e = e['e']
    return e


def show(e, depth=0):
    """Canonical one-line text of an expression; used for operand matching and reports."""
    if e is None:
        return ''
    if not is_node(e):
        return str(e)
    k = e['k']
    if k == 'int':
        return str(e['v'])
    if k == 'float':
        return repr(e['v'])
    if k == 'bool':
        return 'true' if e['v'] else 'false'
    if k == 'str':
        return '"%s"' % e['v'].replace('\n', '\\n')
    if k == 'char':
        v = e['v']
        return "'%s'" % (chr(v) if 32 <= v < 127 else '\\x%02x' % v)
    if k == 'nullptr':
        return 'nullptr'
    if k == 'this':
        return 'this'
    if k == 'ref':
        return short(e['name']) if e.get('kind') in ('enum',) else e['name'].split('::')[-1] if e.get('global') else e['name']
    if k == 'member':
        b = e['base']
        if is_node(b) and b['k'] == 'this' and b.get('implicit'):
            return e['name']
        return show(b) + ('->' if e.get('arrow') else '.') + e['name']
    if k in ('bin', 'assign', 'cassign'):
        return '(%s %s %s)' % (show(e['l']), e['op'], show(e['r']))
    if k == 'un':
        return ('%s%s' % (show(e['e']), e['op'])) if e.get('postfix') else ('%s%s' % (e['op'], show(e['e'])))
    if k == 'cond':
        return '(%s ? %s : %s)' % (show(e['c']), show(e['t']), show(e['f']))
    if k == 'index':
        return '%s[%s]' % (show(e['base']), show(e['i']))
    if k == 'defaultarg':
        return ''
    if k == 'call':
        nm = short(e['callee']) if e.get('callee') else show(e.get('calleeExpr'))
        return '%s(%s)' % (nm, _args(e['args']))
    if k == 'mcall':
        o = e.get('obj')
        nm = short(e['callee'])
        if is_node(o) and o['k'] == 'this' and o.get('implicit'):
            return '%s(%s)' % (nm, _args(e['args']))
        return '%s%s%s(%s)' % (show(o), '->' if e.get('arrow') else '.', nm, _args(e['args']))
    if k == 'opcall':
        a = e['args']
        op = e['op']
        if op == '->' and len(a) == 1:
            return show(a[0])
        if op == '*' and len(a) == 1:
            return '*' + show(a[0])
        if op == '()':
            return '%s(%s)' % (show(a[0]), _args(a[1:]))
        if len(a) == 2:
            return '(%s %s %s)' % (show(a[0]), op, show(a[1]))
        if len(a) == 1:
            return '%s%s' % (op, show(a[0]))
        return 'operator%s(%s)' % (op, _args(a))
    if k == 'construct':
        return '%s(%s)' % (short_type(e['type']), _args(e['args']))
    if k == 'new':
        return 'new %s(%s)' % (e['type'], show(e.get('init')))
    if k == 'delete':
        return 'delete ' + show(e['e'])
    if k == 'cast':
        return 'cast<%s>(%s)' % (e['type'], show(e['e']))
    if k == 'dyncast':
        return 'dynamic_cast<%s>(%s)' % (e['type'], show(e['e']))
    if k == 'initlist':
        return '{%s}' % _args(e['items'])
    if k == 'lambda':
        return '[lambda@%s]' % e.get('ln')
    if k == 'throw':
        return 'throw ' + show(e.get('e'))
    if k == 'zeroinit':
        return e['type'] + '()'
    if k in ('sizeof', 'typeid', 'unk'):
        return e.get('src', k)
    if k == 'var':
        return '%s %s = %s' % (e['type'], e['name'], show(e.get('init')))
    return '<%s>' % k


def short_type(t):
    return t.replace('bloch::runtime::', '').replace('bloch::compiler::', '').replace('bloch::support::', '')


def _args(a):
    return ', '.join(x for x in (show(y) for y in a) if x != '')


def real_args(n):
    """Arguments of a call-like node without trailing default arguments."""
    a = list(n.get('args', []))
    while a and is_node(a[-1]) and a[-1]['k'] == 'defaultarg':
        a.pop()
    return a


def is_this_member(e, name=None):
    """e is `this->name` / implicit member `name`."""
    if not (is_node(e) and e['k'] == 'member'):
        return False
    b = e['base']
    if not (is_node(b) and b['k'] == 'this'):
        return False
    return name is None or e['name'] == name


def member_chain(e):
    """For a.b.c[i].d returns the list of field names from the root outward and the root node."""
    names = []
    while is_node(e):
        k = e['k']
        if k == 'member':
            names.append(e['name'])
            e = e['base']
        elif k == 'index':
            e = e['base']
        elif k == 'opcall' and e['op'] in ('->', '*') and len(e['args']) == 1:
            e = e['args'][0]
        elif k == 'un' and e['op'] == '*':
            e = e['e']
        elif k == 'mcall' and short(e['callee']) in ('back', 'front', 'at', 'get', 'value') and not real_args(e)[1:]:
            e = e['obj']
        else:
            break
    names.reverse()
    return e, names


def lambdas_in(body):
    for n in walk(body):
        if n['k'] == 'lambda':
            yield n


ASSIGN_OPS = ('=', '+=', '-=', '*=', '/=', '%=', '|=', '&=', '^=', '<<=', '>>=')


def write_target(n):
    """If node n writes through an lvalue (built-in or overloaded assignment, inc/dec), returns
    (lvalue expr, rhs expr or None, op) else None."""
    k = n.get('k')
    if k in ('assign', 'cassign'):
        return n['l'], n['r'], n['op']
    if k == 'un' and n['op'] in ('++', '--'):
        return n['e'], None, n['op']
    if k == 'opcall' and n['op'] in ASSIGN_OPS and len(n['args']) == 2:
        return n['args'][0], n['args'][1], n['op']
    if k == 'opcall' and n['op'] in ('++', '--') and n['args']:
        return n['args'][0], None, n['op']
    return None


def append_target(n):
    """the container expression node n appends to, for the spellings of "append at the end": push_back / emplace_back,
    insert(<c>.end(), …), and std::move / std::copy(first, last, std::back_inserter(<c>)); None otherwise"""
    k = n.get('k')
    if k == 'mcall' and short(n.get('callee', '')) in ('push_back', 'emplace_back'):
        return n.get('obj')
    if k == 'mcall' and short(n.get('callee', '')) == 'insert' and n.get('args'):
        a0 = strip(n['args'][0])
        if is_node(a0) and a0.get('k') == 'mcall' and short(a0.get('callee', '')) in ('end', 'cend') and show(strip(a0.get('obj'))) == show(strip(n.get('obj'))):
            return n.get('obj')
    if k == 'call' and callee(n) in ('std::move', 'std::copy', 'std::move_backward') and len(n.get('args', [])) == 3:
        a2 = strip(n['args'][2])
        if is_node(a2) and a2.get('k') == 'call' and callee(a2) == 'std::back_inserter' and len(a2.get('args', [])) == 1:
            return a2['args'][0]
    return None


_NEG = {'==': '!=', '!=': '==', '<': '>=', '>=': '<', '>': '<=', '<=': '>'}


def cmp_parts(e):
    """(op, lhs, rhs) for a built-in or overloaded comparison, looking through `!` (C++20 rewrites
    a != b on class types into !(a == b)); None otherwise."""
    neg = False
    while is_node(e) and e['k'] == 'un' and e['op'] == '!':
        neg = not neg
        e = e['e']
    if not is_node(e):
        return None
    if e['k'] == 'bin' and e['op'] in _NEG:
        op, l, r = e['op'], e['l'], e['r']
    elif e['k'] == 'opcall' and e['op'] in _NEG and len(e['args']) == 2:
        op, l, r = e['op'], e['args'][0], e['args'][1]
    else:
        return None
    # C++20: a >= b on class types is rewritten to (a <=> b) >= 0
    ll = l
    while is_node(ll) and ll['k'] in ('cast',):
        ll = ll['e']
    if is_node(ll) and ll['k'] in ('opcall', 'bin') and ll.get('op') == '<=>':
        a, b = (ll['args'][0], ll['args'][1]) if ll['k'] == 'opcall' else (ll['l'], ll['r'])
        rr = r
        zero = is_node(rr) and ((rr['k'] == 'int' and rr['v'] == 0) or (rr['k'] == 'construct' and '__unspec' in rr.get('type', '')))
        if zero:
            l, r = a, b
    return (_NEG[op] if neg else op), l, r


def loop_range(lp):
    """the container a loop runs over from its first to its last element: the range of a range-for, or C of the iterator form
    `for (auto it = C.begin(); it != C.end(); ++it)` (the iterator not written in the body) — else None"""
    if not is_node(lp):
        return None
    if lp.get('k') == 'forrange':
        return lp.get('range')
    if lp.get('k') != 'for':
        return None
    ini = lp.get('init')
    ds = ini.get('d') if is_node(ini) and ini.get('k') == 'decls' else None
    if not ds or len(ds) != 1 or not is_node(ds[0].get('init')):
        return None
    b = strip(ds[0]['init'])
    if not (is_node(b) and b.get('k') == 'mcall' and short(b.get('callee', '')) in ('begin', 'cbegin') and not real_args(b)):
        return None
    cont = b.get('obj')
    it = ds[0].get('id')
    c = strip(lp.get('c'))
    neg = False
    if is_node(c) and c.get('k') == 'un' and c.get('op') == '!':
        c, neg = strip(c.get('e')), True
    cp = cmp_parts(c) if is_node(c) else None
    if not cp or (cp[0], neg) not in (('!=', False), ('==', True)):
        return None
    sides = [strip(cp[1]), strip(cp[2])]
    has_it = any(is_node(x) and x.get('k') == 'ref' and x.get('id') == it for x in sides)
    has_end = any(is_node(x) and x.get('k') == 'mcall' and short(x.get('callee', '')) in ('end', 'cend') and show(strip(x.get('obj'))) == show(strip(cont)) for x in sides)
    inc = strip(lp.get('inc'))
    inc_ok = is_node(inc) and show(inc).replace(' ', '') in ('++' + (ds[0].get('name') or ''), (ds[0].get('name') or '') + '++')
    if not (has_it and has_end and inc_ok):
        return None
    for n in walk(lp.get('body')):
        w = write_target(n)
        if w and is_node(strip(w[0])) and strip(w[0]).get('id') == it:
            return None
    return cont
