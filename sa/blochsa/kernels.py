"""Reusable analysis kernels on top of the CFG / call graph."""
from . import sx as SX
from .facts import AnalysisBroken


def arg(call, i):
    a = SX.real_args(call)
    return a[i] if i < len(a) else None


def arg_text(call, i):
    a = arg(call, i)
    return SX.show(a) if a is not None else None


def param_index(f, name_or_ref):
    """Index of the parameter a ref node denotes, or None."""
    if SX.is_node(name_or_ref) and name_or_ref['k'] == 'ref' and name_or_ref.get('kind') == 'param':
        for i, p in enumerate(f.params):
            if p['id'] == name_or_ref.get('id'):
                return i
    return None


class ArgSummary:
    """K-PAIR wrapper summaries.  For a base set of functions that establish a fact about one of
    their arguments ("ensures arg 0", "marks arg 0"), computes the least fixpoint of
        S(f) = { i | every normal path of f passes a call g(..., param_i, ...) with j in S(g) at position j }
    over a family of candidate wrapper functions."""

    def __init__(self, prog, base, candidates, modulo_bounds=False):
        """modulo_bounds: a path may skip the establishing call if it leaves through a pure bounds test
        on the same parameter (an out-of-range index has no state to establish anything about)."""
        self.p = prog
        self.s = {}
        for f, idxs in base:
            self.s[f.key] = set(idxs)
        self.cand = candidates
        changed = True
        while changed:
            changed = False
            for f in candidates:
                if not f.body:
                    continue
                have = self.s.get(f.key, set())
                for i, prm in enumerate(f.params):
                    if i in have:
                        continue
                    g = prog.cfg(f)
                    hits = [n for n in g.calls() if self.establishes(n.e, lambda a: SX.is_node(a) and a['k'] == 'ref' and a.get('id') == prm['id'])]
                    avoid = list(hits)
                    if modulo_bounds and hits:
                        for e in g.nodes:
                            if e.kind == 'edge' and bounds_cond(e.e, prm['id']) and out_of_range_edge(e, prm['id']):
                                r = g.reachable([e])
                                if not any(h.id in r for h in hits):
                                    avoid.append(e)
                    if hits and g.must_follow(g.entry, avoid):
                        self.s.setdefault(f.key, set()).add(i)
                        changed = True

    def positions(self, call):
        key = SX.callee(call) + call.get('sig', '')
        return self.s.get(key, set())

    def establishes(self, call, argpred):
        """call establishes the fact for an operand satisfying argpred."""
        for j in self.positions(call):
            a = arg(call, j)
            if a is not None and argpred(a):
                return True
        return False

    def establishes_text(self, call, text):
        return self.establishes(call, lambda a: SX.show(a) == text)

    def establishes_canon(self, call, text, canon):
        """like establishes_text, but operands are compared in canonical form (K-CANON: single-definition locals expanded,
        straight-line local closures inlined), and an invocation of a local closure counts through the calls it performs
        unconditionally."""
        if self.establishes(call, lambda a: canon.text(a) == text):
            return True
        for inner, subst in canon.closure_events(call):
            for j in self.positions(inner):
                a = arg(inner, j)
                if a is not None and canon.text(a, subst) == text:
                    return True
        return False

    def inner_establishing(self, call, text, canon):
        """the call node that actually establishes the fact: `call` itself, or the call inside the closure it invokes"""
        if self.establishes(call, lambda a: canon.text(a) == text):
            return call
        for inner, subst in canon.closure_events(call):
            for j in self.positions(inner):
                a = arg(inner, j)
                if a is not None and canon.text(a, subst) == text:
                    return inner
        return None


def full_range_for(s):
    """s is `for (T i = 0; i < <bound>; ++i)` (or i++ / i += 1) with i not written in the body.
    Returns (var id, bound expr) or None."""
    if s['k'] != 'for' or not s.get('init') or s['init']['k'] != 'decls' or len(s['init']['d']) != 1:
        return None
    v = s['init']['d'][0]
    init = v.get('init')
    while SX.is_node(init) and init['k'] in ('cast',):
        init = init['e']
    if SX.is_node(init) and init['k'] == 'initlist' and len(init['items']) == 1:
        init = init['items'][0]
    if not (SX.is_node(init) and init['k'] == 'int' and init['v'] == 0):
        return None
    c = s.get('c')
    if not (SX.is_node(c) and c['k'] == 'bin' and c['op'] in ('<', '!=')):
        return None
    l = c['l']
    while SX.is_node(l) and l['k'] == 'cast':
        l = l['e']
    if not (SX.is_node(l) and l['k'] == 'ref' and l.get('id') == v['id']):
        return None
    inc = s.get('inc')
    ok = False
    if SX.is_node(inc) and inc['k'] == 'un' and inc['op'] == '++' and SX.is_node(inc['e']) and inc['e'].get('id') == v['id']:
        ok = True
    if SX.is_node(inc) and inc['k'] == 'cassign' and inc['op'] == '+=' and inc['l'].get('id') == v['id'] and SX.is_node(inc['r']) \
            and inc['r']['k'] == 'int' and inc['r']['v'] == 1:
        ok = True
    if not ok:
        return None
    for n in SX.walk(s['body']):
        if n['k'] in ('assign', 'cassign') and SX.is_node(n['l']) and n['l'].get('id') == v['id']:
            return None
        if n['k'] == 'un' and n['op'] in ('++', '--') and SX.is_node(n['e']) and n['e'].get('id') == v['id']:
            return None
    return v['id'], c['r']


def size_of(e):
    """If e is `<container>.size()` (possibly cast), returns the container expression."""
    while SX.is_node(e) and e['k'] == 'cast':
        e = e['e']
    if SX.is_node(e) and e['k'] == 'mcall' and SX.short(e['callee']) == 'size':
        return e['obj']
    return None


def enclosing_stmts(body, target, into_lambdas=True):
    """Chain of statement nodes from the function body down to the statement containing `target`
    (identity comparison)."""
    path = []

    def go(n):
        if n is target:
            return True
        if not isinstance(n, dict):
            return False
        if not into_lambdas and n.get('k') == 'lambda':
            return False
        for c in SX.children(n):
            if go(c):
                if 'k' in n and n['k'] in ('block', 'if', 'for', 'while', 'do', 'forrange', 'switch', 'case', 'default', 'try', 'expr', 'decls', 'return'):
                    path.append(n)
                return True
        return False
    go(body)
    path.reverse()
    return path


def find_nodes(body, pred, into_lambdas=False):
    return [n for n in SX.walk(body, into_lambdas=into_lambdas) if pred(n)]


def contains(e, pred):
    return any(pred(n) for n in SX.walk(e))


def writes_of_member(prog, fns, record_q, field):
    """[(fn, node, how)] for every write to record_q::field in the given functions.
    how ∈ assign, cassign, incdec, nonconst:<method>, addr"""
    out = []
    q = record_q + '::' + field

    def is_f(e):
        e = SX.strip(e)
        return SX.is_node(e) and e['k'] == 'member' and e.get('q') == q

    def base_field(e):
        """e denotes the field itself or something inside it (element, sub-member)."""
        while SX.is_node(e):
            if is_f(e):
                return True
            k = e['k']
            if k == 'member':
                e = e['base']
            elif k == 'index':
                e = e['base']
            elif k == 'opcall' and e['op'] in ('->', '*') and len(e['args']) == 1:
                e = e['args'][0]
            elif k == 'mcall' and SX.short(e['callee']) in ('back', 'front', 'at', 'begin', 'end') and True:
                e = e['obj']
            elif k == 'un' and e['op'] == '*':
                e = e['e']
            else:
                return False
        return False
    for f in fns:
        if not f.body:
            continue
        for n in SX.walk(f.body):
            k = n['k']
            if k in ('assign', 'cassign') and base_field(n['l']):
                out.append((f, n, k))
            elif k == 'un' and n['op'] in ('++', '--') and base_field(n['e']):
                out.append((f, n, 'incdec'))
            elif k == 'un' and n['op'] == '&' and base_field(n['e']):
                out.append((f, n, 'addr'))
            elif k == 'mcall' and not n.get('constm', True) and base_field(n.get('obj')):
                out.append((f, n, 'nonconst:' + SX.short(n['callee'])))
            elif k == 'opcall' and n.get('member') and n['op'] in ('=', '+=', '-=', '<<') and n['args'] and base_field(n['args'][0]):
                out.append((f, n, 'op' + n['op']))
            elif k == 'index' and 'callee' in n and 'unordered_map' in n.get('bt', '') + n.get('callee', '') and base_field(n['base']):
                # map operator[] inserts
                pass
    return out


def bounds_cond(ce, pid):
    """ce compares the parameter pid only with literals and container sizes (a pure range test)."""
    if pid is None:
        return False
    for x in SX.walk(ce):
        k = x['k']
        if k == 'ref' and x.get('id') != pid and x.get('kind') != 'enum':
            return False
        if k == 'call':
            return False
        if k == 'mcall' and SX.short(x['callee']) != 'size':
            return False
    return any(x['k'] == 'ref' and x.get('id') == pid for x in SX.walk(ce))


def must_follow_modulo_bounds(g, src, followers, pid):
    """Every normal path from src passes a node of `followers`, except paths that leave through a
    pure bounds test on parameter pid from which no follower is reachable."""
    followers = list(followers)
    if not followers:
        return False
    avoid = list(followers)
    for e in g.nodes:
        if e.kind == 'edge' and bounds_cond(e.e, pid) and out_of_range_edge(e, pid):
            r = g.reachable([e])
            if not any(h.id in r for h in followers):
                avoid.append(e)
    return g.must_follow(src, avoid)


def out_of_range_edge(e, pid):
    """the branch edge e is taken exactly when parameter pid is OUT of range: `p < 0` true, `p >= 0` false, `p >= <size>` true,
    `p < <size>` false (and the mirrored spellings).  Only such an edge may excuse a skipped obligation: the in-range side of
    the same test must still meet it."""
    cp = SX.cmp_parts(e.e) if SX.is_node(e.e) else None
    if not cp:
        return False
    op, a, b = cp[0], SX.strip(cp[1]), SX.strip(cp[2])

    def peel(x):
        while SX.is_node(x) and x.get('k') == 'cast':
            x = SX.strip(x['e'])
        return x
    a, b = peel(a), peel(b)
    flip = {'<': '>', '>': '<', '<=': '>=', '>=': '<=', '==': '==', '!=': '!='}
    neg = {'<': '>=', '>=': '<', '>': '<=', '<=': '>', '==': '!=', '!=': '=='}
    if SX.is_node(b) and b.get('k') == 'ref' and b.get('id') == pid:
        a, b, op = b, a, flip[op]
    if not (SX.is_node(a) and a.get('k') == 'ref' and a.get('id') == pid):
        return False
    if not e.pol:
        op = neg[op]
    if SX.is_node(b) and b.get('k') == 'int':
        return (op == '<' and b['v'] <= 0) or (op == '<=' and b['v'] < 0)
    # anything else the pure range test compares with is an upper bound (a size or a count)
    return op in ('>=', '>')


def frozen_static_locals(f):
    """[(var node, name of what it depends on)] — function-local statics whose initialiser reads a parameter or a non-static local of the
    function: initialised on the first call only, they keep that call's value for the life of the process
    (`static const std::array<…> m{epos, 0, 0, eneg};` in rz: every later rz rotates by the first angle)."""
    if not f.body:
        return []
    own = {q['id']: q['name'] for q in f.params if q.get('id')}
    for v in SX.walk(f.body, into_lambdas=False):
        if v.get('k') == 'var' and not v.get('static') and v.get('id'):
            own[v['id']] = v.get('name')
    out = []
    for v in SX.walk(f.body, into_lambdas=False):
        if v.get('k') == 'var' and v.get('static') and SX.is_node(v.get('init')):
            deps = [own[x['id']] for x in SX.walk(v['init']) if x.get('k') == 'ref' and x.get('id') in own]
            if deps:
                out.append((v, deps[0]))
    return out
