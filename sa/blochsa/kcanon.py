"""K-CANON: canonical operand expressions.

Rules that pair two events on "the same operand" (ensure-active(q) … gate(q), measure(q) … mark(q)) must not depend on how the
operand is spelled.  A maintainer may name it (`int target = args[0].qubit;`), or wrap check-and-fetch into a local closure
(`auto active = [&](size_t pos) { int q = args[pos].qubit; ensureQubitActive(q, …); return q; };  int target = active(0);`).

`Canon(prog, f).expand(e)` rewrites an expression by
  * replacing a reference to a local that has exactly one definition (its declaration), is never written afterwards and whose
    initialiser is stable (reads no `this` member; reads only locals that are not written after the declaration) by its
    (expanded) initialiser, and
  * replacing a call of a local closure whose body is straight-line (declarations, expression statements, one final
    `return X`) by X with the parameters substituted,
so that both spellings above print as `args[0].qubit`.  Nothing else is rewritten; an expression that does not fit stays as
it is (the pairing rule then fails as before, it never passes by accident).

`closure_events(call)` lists the calls a closure invocation performs on every normal path, with their arguments
substituted — used to see that `active(0)` *is* an ensure-active(args[0].qubit) event."""
from . import sx as SX


class Canon:
    def __init__(self, prog, f):
        self.p = prog
        top = f
        while getattr(top, 'kind', '') == 'lambda' and getattr(top, 'parent', None) is not None:
            top = top.parent
        self.top = top
        self.vars = {}
        self.lams = {}
        written = set()
        self.wlines = {}
        for n in SX.walk(top.body):
            if n['k'] == 'var' and n.get('id'):
                self.vars[n['id']] = n
            w = SX.write_target(n)
            if w:
                l = SX.strip(w[0])
                while SX.is_node(l) and l.get('k') in ('member', 'index'):
                    l = SX.strip(l.get('base'))
                if SX.is_node(l) and l.get('k') == 'ref' and l.get('id'):
                    written.add(l['id'])
                    self.wlines.setdefault(l['id'], []).append(n.get('ln') or 10 ** 9)
            if n['k'] == 'mcall' and not n.get('constm'):
                o = SX.strip(n.get('obj'))
                while SX.is_node(o) and o.get('k') in ('member', 'index'):
                    o = SX.strip(o.get('base'))
                if SX.is_node(o) and o.get('k') == 'ref' and o.get('id'):
                    written.add(o['id'])
                    self.wlines.setdefault(o['id'], []).append(n.get('ln') or 10 ** 9)
            if n['k'] == 'opcall' and n.get('op') in ('+=', '-=', '<<=', '>>=', '|=', '&=', '^=', '++', '--') and n.get('args'):
                o = SX.strip(n['args'][0])
                if SX.is_node(o) and o.get('k') == 'ref' and o.get('id'):
                    written.add(o['id'])
                    self.wlines.setdefault(o['id'], []).append(n.get('ln') or 10 ** 9)
            if n['k'] in ('un', 'incdec') and n.get('op') in ('++', '--') and SX.is_node(SX.strip(n.get('e'))) and SX.strip(n['e']).get('k') == 'ref':
                written.add(SX.strip(n['e']).get('id'))
        self.written = written
        lam_fns = {}

        def collect(fn):
            for lf in fn.lambdas:
                lam_fns[id(lf.node)] = lf
                collect(lf)
        collect(top)
        for vid, v in self.vars.items():
            i = SX.strip(v.get('init')) if SX.is_node(v.get('init')) else None
            if SX.is_node(i) and i.get('k') == 'lambda' and id(i) in lam_fns:
                self.lams[vid] = lam_fns[id(i)]

    # ---- closures ---------------------------------------------------------------------------------
    def closure(self, call):
        """(lambda Function, [arg exprs]) when `call` invokes a local closure, else None"""
        if not (SX.is_node(call) and call.get('k') == 'opcall' and call.get('op') == '()' and call.get('args')):
            return None
        c = SX.strip(call['args'][0])
        if SX.is_node(c) and c.get('k') == 'ref' and c.get('id') in self.lams and c['id'] not in self.written:
            return self.lams[c['id']], call['args'][1:]
        return None

    @staticmethod
    def _straight(lf):
        """statements of a straight-line closure body and its returned expression (or None)"""
        b = lf.body
        if not (SX.is_node(b) and b.get('k') == 'block'):
            return None
        st = b['body']
        ret = None
        for i, s in enumerate(st):
            if s['k'] == 'return':
                if i != len(st) - 1:
                    return None
                ret = s.get('e')
            elif s['k'] not in ('decls', 'expr'):
                return None
        return st, ret

    def closure_events(self, call):
        """[(call node inside the closure, substitution)] for every call the closure performs unconditionally"""
        c = self.closure(call)
        if not c:
            return []
        lf, args = c
        sl = self._straight(lf)
        if sl is None:
            return []
        subst = {prm['id']: self.expand(a) for prm, a in zip(lf.params, args)}
        out = []
        for s in sl[0]:
            for n in SX.walk(s, into_lambdas=False):
                if n['k'] in ('call', 'mcall'):
                    out.append((n, subst))
        return out

    # ---- expansion --------------------------------------------------------------------------------
    def expand(self, e, subst=None, depth=0):
        subst = subst or {}
        if not SX.is_node(e) or depth > 12:
            return e
        k = e.get('k')
        if k == 'ref':
            if e.get('id') in subst:
                return subst[e['id']]
            v = self.vars.get(e.get('id'))
            if v is not None and e.get('kind') in ('var', None) and e['id'] not in self.written and e['id'] not in self.lams and SX.is_node(v.get('init')) \
                    and not v.get('bindings') and self._pure(v['init']) and self._stable(v) and \
                    not (SX.strip(v['init']).get('k') == 'construct' and not SX.real_args(SX.strip(v['init']))):
                return self.expand(v['init'], subst, depth + 1)
            return e
        if k == 'opcall' and e.get('op') == '()':
            c = self.closure(e)
            if c:
                lf, args = c
                sl = self._straight(lf)
                if sl is not None and sl[1] is not None:
                    s2 = dict(subst)
                    for prm, a in zip(lf.params, args):
                        s2[prm['id']] = self.expand(a, subst, depth + 1)
                    return self.expand(sl[1], s2, depth + 1)
            return e
        out = {}
        for kk, vv in e.items():
            if isinstance(vv, dict) and 'k' in vv:
                out[kk] = self.expand(vv, subst, depth)
            elif isinstance(vv, list) and vv and all(isinstance(x, dict) for x in vv) and kk in ('args', 'items'):
                out[kk] = [self.expand(x, subst, depth) if 'k' in x else x for x in vv]
            else:
                out[kk] = vv
        return out

    def _stable(self, v):
        """the initialiser of local v still has its value wherever v is used: it reads no member of `this` (callees may change
        those), and every local it reads is either never written or written only before v's declaration (source order; the
        evaluated-argument vector is filled and then only read)"""
        ln = v.get('ln') or 0
        isref = (v.get('type') or '').rstrip().endswith('&') and not (v.get('type') or '').rstrip().endswith('&&')
        for n in SX.walk(v['init'], into_lambdas=False):
            if n['k'] == 'this' and not isref:
                return False        # (a reference local IS the member element it is bound to, whatever callees do to its value)
            if n['k'] == 'ref' and n.get('kind') in ('var', 'param', 'binding') and n.get('id') in self.written:
                if any(w >= ln for w in self.wlines.get(n['id'], [10 ** 9])):
                    return False
        return True

    def _pure(self, e):
        """initialiser that can be re-read at the use site: no calls except closure calls, container reads and conversions"""
        for n in SX.walk(e, into_lambdas=False):
            if n['k'] in ('call', 'mcall', 'new', 'assign', 'cassign', 'throw'):
                if n['k'] == 'mcall' and SX.short(n.get('callee', '')) in ('size', 'get', 'at', 'front', 'back', 'empty'):
                    continue
                return False
            if n['k'] == 'opcall' and n.get('op') not in ('[]', '->', '*', '()'):
                return False
            if n['k'] == 'opcall' and n.get('op') == '()' and not self.closure(n):
                return False
        return True

    def text(self, e, subst=None):
        x = self.expand(e, subst)
        return SX.show(SX.strip(x)) if SX.is_node(x) else None


# ---- statement-level closure inlining -----------------------------------------------------------------------------------
def inline_closures(prog, f, depth=3):
    """A copy of function f in which every expression statement that calls a local closure (`auto step = [&](T x) {…}; … step(a);`)
    is replaced by the block `{ T x = a; …closure body… }`.  Exact when the closure variable is never reassigned, the closure is
    not recursive and its body has no `return` (a return would leave the closure, not f): only such calls are inlined, all others
    stay as they are.  Typestate rules written over one function's CFG then see through a body that was split into local
    closures.  Returns f itself when there is nothing to inline."""
    import copy
    if not f.body:
        return f
    cached = getattr(prog, '_inlined', None)
    if cached is None:
        cached = prog._inlined = {}
    if id(f) in cached:
        return cached[id(f)]
    canon = Canon(prog, f)
    count = [0]

    def inlinable(lf):
        if not (SX.is_node(lf.body) and lf.body.get('k') == 'block'):
            return False
        for n in SX.walk(lf.body, into_lambdas=False):
            if n['k'] == 'return':
                return False
        return True

    def rewrite(s, d, stack):
        if not isinstance(s, dict):
            return s
        if s.get('k') == 'expr' and d > 0:
            c = canon.closure(SX.strip(s.get('e')))
            if c and inlinable(c[0]) and id(c[0]) not in stack and len(c[1]) == len(c[0].params):
                lf, args = c
                decls = []
                for prm, a in zip(lf.params, args):
                    decls.append({'k': 'var', 'id': prm['id'], 'name': prm.get('name', ''), 'type': prm.get('type', ''), 'init': a, 'ln': s.get('ln'), 'col': s.get('col'),
                                  'inlined_param': True})
                body = [rewrite(x, d - 1, stack | {id(lf)}) for x in lf.body['body']]
                count[0] += 1
                out = {'k': 'block', 'ln': s.get('ln'), 'col': s.get('col'), 'body': ([{'k': 'decls', 'd': decls, 'ln': s.get('ln')}] if decls else []) + body,
                       'inlined_from': lf.name}
                return out
            return s
        if s.get('k') == 'lambda':
            return s
        out = None
        for key, v in s.items():
            nv = v
            if isinstance(v, dict):
                nv = rewrite(v, d, stack)
            elif isinstance(v, list) and v and all(isinstance(x, dict) for x in v):
                nl = [rewrite(x, d, stack) for x in v]
                if any(a is not b for a, b in zip(nl, v)):
                    nv = nl
            if nv is not v:
                if out is None:
                    out = dict(s)
                out[key] = nv
        return out if out is not None else s

    nb = rewrite(f.body, depth, frozenset())
    if not count[0]:
        cached[id(f)] = f
        return f
    f2 = copy.copy(f)
    f2.body = nb
    f2.d = dict(f.d, body=nb)
    f2.inlined = count[0]
    cached[id(f)] = f2
    return f2

