"""Per-pair transformer extraction for statevector loops.

A loop `for (i = 0; i < state.size(); ++i) BODY` over the amplitude vector whose body only distinguishes indices by
"is bit q of i set" acts independently on each pair (cell0, cell1) = (index with bit q clear, same index with bit q set).
This module evaluates BODY symbolically for one iteration, by cases on b = bit q of i and on the given scalar case
variables, with read-after-write semantics on the two cells, and returns what the iteration writes and accumulates.
Values are sympy expressions; nothing is executed."""
import sympy as sp
from . import sx as SX
from . import ksym as KS


class NotPairwise(Exception):
    pass


class OutsidePair(NotPairwise):
    """the loop body addresses a cell that is not one of the two cells of the current pair (e.g. state[i & bit]): whatever it
    computes, it is not the per-pair transformer the property requires"""


class _Continue(Exception):
    pass


A = (sp.Symbol('A0'), sp.Symbol('A1'))     # pre-iteration amplitudes of the pair


class PairIter:
    def __init__(self, amp, loop_var_id, bit_var_ids, scalars, cases):
        """scalars: var id → sympy expr (symbols for p1, r, …); cases: var id → python bool/int fixed for this case"""
        self.amp = amp
        self.iv = loop_var_id
        self.bitvars = set(bit_var_ids)
        self.scalars = dict(scalars)
        self.cases = dict(cases)
        self.cells = {}        # 0/1 → expr written
        self.acc = {}          # var id → expr added
        self.local_idx = {}    # var id → cell flag
        self.b = None
        self.pre = A

    # ---- index algebra ------------------------------------------------------------------------
    def cell(self, e):
        e = SX.strip(e)
        while SX.is_node(e) and e['k'] == 'cast':
            e = e['e']
        if not SX.is_node(e):
            raise NotPairwise('index')
        if e['k'] == 'ref':
            if e.get('id') == self.iv:
                return self.b
            if e.get('id') in self.local_idx:
                return self.local_idx[e['id']]
            if e.get('id') in getattr(self, 'zero_vars', ()):
                return 0
            if e.get('id') in getattr(self, 'lazy_idx', {}):
                # an offset chosen before the sweep by the case at hand (`size_t keep = res ? bit : 0;`)
                return self._offset(self.lazy_idx[e['id']])
            raise NotPairwise('index variable ' + e['name'])
        if e['k'] == 'cond':
            return self.cell(e['t']) if self.cond(e['c']) else self.cell(e['f'])
        if e['k'] == 'bin' and e['op'] == '+' and getattr(self, 'lazy_idx', None):
            # base + offset [+ offset-free zero variable]: block start, an offset that is 0 or 2^q, the position inside the half
            terms = []

            def flat(x):
                x = self._peel(SX.strip(x))
                if SX.is_node(x) and x.get('k') == 'bin' and x.get('op') == '+':
                    flat(x['l'])
                    flat(x['r'])
                else:
                    terms.append(x)
            flat(e)
            if any(SX.is_node(t_) and t_.get('k') == 'ref' and t_.get('id') in self.lazy_idx for t_ in terms):
                zv = getattr(self, 'zero_vars', ())
                seen, off = set(), 0
                for t_ in terms:
                    if SX.is_node(t_) and t_.get('k') == 'ref' and t_.get('id') in zv and t_['id'] not in seen:
                        seen.add(t_['id'])
                    elif SX.is_node(t_) and t_.get('k') == 'ref' and t_.get('id') in self.lazy_idx and off == 0:
                        off += self._offset(self.lazy_idx[t_['id']])
                        seen.add(t_['id'])
                    elif self._is_bit(t_) and off == 0:
                        off += 1
                    else:
                        raise NotPairwise('index expression ' + SX.show(e)[:40])
                if zv and set(zv) <= seen:
                    return off
                raise NotPairwise('index expression ' + SX.show(e)[:40])
        if e['k'] == 'bin':
            l, r = SX.strip(e['l']), SX.strip(e['r'])
            zv = getattr(self, 'zero_vars', ())
            if e['op'] in ('+', '|') and zv and all(SX.is_node(x) and x.get('k') == 'ref' and x.get('id') in zv for x in (self._peel(l), self._peel(r))):
                return 0      # block start (multiple of 2·2^q) plus offset (< 2^q): bit q is clear
            lb = self._is_bit(l)
            rb = self._is_bit(r)
            if rb or lb:
                other = l if rb else r
                c = self.cell(other)
                if e['op'] == '|':
                    return 1
                if e['op'] == '^':
                    return 1 - c
                if e['op'] == '+' and c == 0:
                    return 1
                if e['op'] == '-' and c == 1 and rb:
                    return 0
            if e['op'] == '&' and SX.is_node(r) and r['k'] == 'un' and r['op'] == '~' and self._is_bit(SX.strip(r['e'])):
                self.cell(l)
                return 0
            if e['op'] == '&' and (rb or lb):
                raise OutsidePair('cell %s is 0 or 2^q itself, not a cell of the pair of index i' % SX.show(e)[:30])
        raise NotPairwise('index expression ' + SX.show(e)[:40])

    @staticmethod
    def _peel(e):
        while SX.is_node(e) and e.get('k') == 'cast':
            e = SX.strip(e['e'])
        return e

    def _offset(self, e):
        """0 or 1 for an offset expression that is 0 or 2^q, decided by the case variables"""
        e = self._peel(SX.strip(e))
        if SX.is_node(e) and e.get('k') == 'int' and e.get('v') == 0:
            return 0
        if self._is_bit(e):
            return 1
        if SX.is_node(e) and e.get('k') == 'cond':
            return self._offset(e['t']) if self.cond(e['c']) else self._offset(e['f'])
        if SX.is_node(e) and e.get('k') == 'ref' and e.get('id') in getattr(self, 'lazy_idx', {}):
            return self._offset(self.lazy_idx[e['id']])
        raise NotPairwise('offset ' + SX.show(e)[:40])

    def _is_bit(self, e):
        while SX.is_node(e) and e['k'] == 'cast':
            e = e['e']
        return SX.is_node(e) and e['k'] == 'ref' and e.get('id') in self.bitvars

    # ---- conditions ---------------------------------------------------------------------------
    def cond(self, e):
        e = SX.strip(e)
        while SX.is_node(e) and e['k'] == 'cast':
            e = e['e']
        k = e['k']
        if k in ('bool', 'int'):
            return bool(e['v'])
        if k == 'un' and e['op'] == '!':
            return not self.cond(e['e'])
        if k == 'bin' and e['op'] == '|':
            l, r = SX.strip(e['l']), SX.strip(e['r'])
            if (self._is_bit(r) and self._is_loopvar(l)) or (self._is_bit(l) and self._is_loopvar(r)):
                return True     # i | 2^q is never zero
        if k == 'bin' and e['op'] == '&&':
            return self.cond(e['l']) and self.cond(e['r'])
        if k == 'bin' and e['op'] == '||':
            return self.cond(e['l']) or self.cond(e['r'])
        if k == 'bin' and e['op'] == '&':
            l, r = SX.strip(e['l']), SX.strip(e['r'])
            if (self._is_bit(r) and self._is_loopvar(l)) or (self._is_bit(l) and self._is_loopvar(r)):
                return bool(self.b)
        if k == 'ref' and e.get('id') in self.cases:
            return bool(self.cases[e['id']])
        if k == 'bin' and e['op'] in ('==', '!=', '<', '>', '<=', '>='):
            try:
                a, b = self.val(e['l']), self.val(e['r'])
                return {'==': a == b, '!=': a != b, '<': a < b, '>': a > b, '<=': a <= b, '>=': a >= b}[e['op']]
            except NotPairwise:
                # comparison of real scalars: decided only when the sign is determined by the declared assumptions
                d = sp.simplify(self.amp_expr(e['l']) - self.amp_expr(e['r']))
                if d.is_positive:
                    return e['op'] in ('>', '>=', '!=')
                if d.is_negative:
                    return e['op'] in ('<', '<=', '!=')
                if d.is_zero:
                    return e['op'] in ('==', '<=', '>=')
                raise NotPairwise('undecided comparison ' + SX.show(e)[:50])
        if k == 'cond':
            return self.cond(e['t']) if self.cond(e['c']) else self.cond(e['f'])
        raise NotPairwise('condition ' + SX.show(e)[:50])

    def _is_loopvar(self, e):
        while SX.is_node(e) and e['k'] == 'cast':
            e = e['e']
        return SX.is_node(e) and e['k'] == 'ref' and e.get('id') == self.iv

    def val(self, e):
        """small integer value of a case expression ((i & bit) ? 1 : 0, res, literals)"""
        e = SX.strip(e)
        while SX.is_node(e) and e['k'] == 'cast':
            e = e['e']
        if e['k'] == 'int':
            return e['v']
        if e['k'] == 'bool':
            return 1 if e['v'] else 0
        if e['k'] == 'ref' and e.get('id') in self.cases:
            return int(self.cases[e['id']])
        if e['k'] == 'cond':
            return self.val(e['t']) if self.cond(e['c']) else self.val(e['f'])
        if e['k'] == 'bin' and e['op'] == '&':
            return 1 if self.cond(e) else 0
        if (e['k'] == 'bin' and e['op'] in ('==', '!=', '<', '>', '<=', '>=', '&&', '||')) or (e['k'] == 'un' and e.get('op') == '!'):
            return 1 if self.cond(e) else 0      # a truth value compared with another (`((i & bit) != 0) == keepSet`)
        raise NotPairwise('case value ' + SX.show(e)[:40])

    # ---- amplitude expressions ----------------------------------------------------------------
    def read(self, idx_node):
        base = SX.show(idx_node['base'])
        if base != self.amp:
            b = SX.strip(idx_node['base'])
            arr = getattr(self, 'arrays', {}).get(b.get('id')) if SX.is_node(b) else None
            k = SX.strip(idx_node['i'])
            if arr is not None and SX.is_node(k) and k.get('k') == 'int' and 0 <= k['v'] < len(arr):
                return arr[k['v']]
            raise KS.Unfoldable('read of ' + SX.show(idx_node)[:40])
        c = self.cell(idx_node['i'])
        if c in self.cells:
            return self.cells[c]
        return self.pre[c]

    def amp_expr(self, e):
        e = SX.strip(e)
        if SX.is_node(e) and e['k'] == 'cond':
            return self.amp_expr(e['t']) if self.cond(e['c']) else self.amp_expr(e['f'])
        if SX.is_node(e) and e['k'] in ('opcall', 'bin') and e.get('op') in ('*', '/', '+', '-'):
            a, b = (e['args'] if e['k'] == 'opcall' else (e['l'], e['r']))
            x, y = self.amp_expr(a), self.amp_expr(b)
            return {'*': x * y, '/': x / y, '+': x + y, '-': x - y}[e['op']]
        if SX.is_node(e) and e['k'] == 'call' and len(SX.real_args(e)) == 1 and SX.short(e.get('callee', '')) in ('sqrt', 'norm', 'abs', 'conj', 'real', 'imag'):
            x = self.amp_expr(SX.real_args(e)[0])
            return {'sqrt': sp.sqrt(x), 'norm': sp.Abs(x) ** 2, 'abs': sp.Abs(x), 'conj': sp.conjugate(x), 'real': sp.re(x), 'imag': sp.im(x)}[SX.short(e['callee'])]
        if SX.is_node(e) and e['k'] == 'mcall' and not SX.real_args(e) and SX.short(e.get('callee', '')) in ('real', 'imag'):
            x = self.amp_expr(e['obj'])
            return sp.re(x) if SX.short(e['callee']) == 'real' else sp.im(x)
        if SX.is_node(e) and e['k'] == 'cast':
            return self.amp_expr(e['e'])
        if SX.is_node(e) and e['k'] == 'ref' and e.get('id') in self.cases and e.get('id') not in self.scalars:
            return sp.Integer(int(self.cases[e['id']]))
        return KS.to_sympy(e, self.scalars, self.read)

    # ---- statements ---------------------------------------------------------------------------
    def run(self, body, b, pre=None):
        self.b = b
        self.pre = pre or A
        self.cells = {}
        self.acc = {}
        self.local_idx = {}
        try:
            self.stmt(body)
        except _Continue:
            pass
        return dict(self.cells), dict(self.acc)

    def stmt(self, s):
        if s is None:
            return
        k = s['k']
        if k == 'block':
            for c in s['body']:
                self.stmt(c)
        elif k == 'if':
            if self.cond(s['c']):
                self.stmt(s['t'])
            else:
                self.stmt(s.get('e'))
        elif k == 'continue':
            raise _Continue()
        elif k == 'decls':
            for v in s['d']:
                vt = v['type'][6:] if v['type'].startswith('const ') else v['type']
                if 'complex' in vt or vt == 'double':
                    self.scalars[v['id']] = self.amp_expr(v['init'])
                elif vt in ('bool', 'int'):
                    # a per-iteration case value: `const bool bitSet = (i & bit) != 0;`
                    self.cases[v['id']] = self.cond(v['init']) if vt == 'bool' else self.val(v['init'])
                else:
                    self.local_idx[v['id']] = self.cell(v['init'])
        elif k == 'expr':
            self.assign(s['e'])
        elif k == 'null':
            pass
        else:
            raise NotPairwise('statement ' + k)

    def assign(self, e):
        w = SX.write_target(e)
        if not w:
            raise NotPairwise('statement ' + SX.show(e)[:40])
        l = SX.strip(w[0])
        op = w[2]
        if l['k'] == 'index' and SX.show(l['base']) == self.amp:
            c = self.cell(l['i'])
            rhs = self.amp_expr(w[1])
            cur = self.cells.get(c, self.pre[c])
            if op == '=':
                self.cells[c] = sp.expand(rhs)
            elif op == '*=':
                self.cells[c] = sp.expand(cur * rhs)
            elif op == '/=':
                self.cells[c] = cur / rhs
            elif op == '+=':
                self.cells[c] = sp.expand(cur + rhs)
            elif op == '-=':
                self.cells[c] = sp.expand(cur - rhs)
            else:
                raise NotPairwise('amplitude update ' + op)
            return
        if l['k'] == 'ref' and op in ('+=', '-='):
            x = self.amp_expr(w[1])
            self.acc[l['id']] = self.acc.get(l['id'], 0) + (x if op == '+=' else -x)
            return
        if l['k'] == 'ref' and op in ('=', '*=', '/=') and l.get('id') not in self.local_idx:
            # the accumulator is overwritten instead of added to: not a sum over the sweep
            self.acc[l['id']] = sp.Symbol('OVERWRITTEN_' + l.get('name', 'acc'))
            return
        raise NotPairwise('write to ' + SX.show(l)[:40])


def full_state_loop(s, amp):
    """for (size_t i = 0; i < amp.size(); ++i) …  → (loop var decl, body) or None"""
    if s['k'] != 'for' or not s.get('init') or s['init']['k'] != 'decls' or len(s['init']['d']) != 1:
        return None
    v = s['init']['d'][0]
    init = SX.strip(v.get('init'))
    while SX.is_node(init) and init['k'] in ('cast', 'initlist'):
        init = init['e'] if init['k'] == 'cast' else (init['items'][0] if init['items'] else None)
    if not (SX.is_node(init) and init['k'] == 'int' and init['v'] == 0):
        return None
    cp = SX.cmp_parts(s.get('c')) if SX.is_node(s.get('c')) else None
    if not cp or cp[0] != '<' or SX.strip(cp[1]).get('id') != v['id'] or SX.show(SX.strip(cp[2])) != amp + '.size()':
        return None
    w = SX.write_target(s['inc']) if SX.is_node(s.get('inc')) else None
    if not w or w[2] != '++' or SX.strip(w[0]).get('id') != v['id']:
        return None
    for n in SX.walk(s['body'], into_lambdas=False):
        if n['k'] in ('break', 'return'):
            return None
        ww = SX.write_target(n)
        if ww and SX.is_node(SX.strip(ww[0])) and SX.strip(ww[0]).get('id') == v['id']:
            return None
    return v, s['body']


def pair_final(it, body):
    """State of one pair after the loop visited both of its cells (bit clear first: it has the smaller index)."""
    c0, _ = it.run(body, 0)
    mid = (c0.get(0, A[0]), c0.get(1, A[1]))
    c1, _ = it.run(body, 1, pre=mid)
    return (c1.get(0, mid[0]), c1.get(1, mid[1]))


def partial_state_loop(s, amp):
    """The loop walks the state vector (its condition bounds an index by amp.size()) but is not a full sweep from 0 with
    stride 1 and no early exit → reason string; None if it is not a state-vector loop at all."""
    if s['k'] != 'for' or not SX.is_node(s.get('c')):
        return None
    if (amp + '.size()') not in SX.show(s['c']):
        # a counted loop from 0 that subscripts the state vector by its counter but stops at something else than the vector's size
        c_ = _counted(s)
        if c_ and any(n.get('k') == 'index' and SX.show(n.get('base')) == amp and any(y.get('k') == 'ref' and y.get('id') == c_[0]['id'] for y in SX.walk(n.get('i')))
                      for n in SX.walk(s['body'], into_lambdas=False)):
            return 'stops at %s instead of the end of the state vector' % SX.show(c_[1])[:30]
        return None
    if full_state_loop(s, amp) is not None:
        return None
    reasons = []
    init = s.get('init')
    if init and init['k'] == 'decls' and init['d']:
        i0 = SX.strip(init['d'][0].get('init'))
        while SX.is_node(i0) and i0['k'] in ('cast', 'initlist'):
            i0 = i0['e'] if i0['k'] == 'cast' else (i0['items'][0] if i0['items'] else None)
        if not (SX.is_node(i0) and i0.get('k') == 'int' and i0.get('v') == 0):
            reasons.append('starts at %s instead of 0' % SX.show(init['d'][0].get('init'))[:30])
    cp = SX.cmp_parts(s['c'])
    if not cp:
        reasons.append('has the extra exit condition %s' % SX.show(s['c'])[:60])
    if any(n['k'] in ('break', 'return') for n in SX.walk(s['body'], into_lambdas=False)):
        reasons.append('leaves early (break/return)')
    w = SX.write_target(s['inc']) if SX.is_node(s.get('inc')) else None
    if not w or w[2] != '++':
        reasons.append('does not step by one')
    return '; '.join(reasons) or 'is not a plain full sweep'


# ---- sweeps over the state vector: flat (every index) or blocked (every bit-clear index once) ---------------------------------
def _lit0(e):
    e = SX.strip(e)
    while SX.is_node(e) and e['k'] in ('cast', 'initlist'):
        e = e['e'] if e['k'] == 'cast' else (e['items'][0] if e['items'] else None)
        e = SX.strip(e) if e is not None else None
    return SX.is_node(e) and e.get('k') == 'int' and e.get('v') == 0


def _counted(s):
    """for (T v = 0; v < B; ++v | v += S) with v untouched in the body and no break/return → (var decl, bound expr, stride expr|None)"""
    if s.get('k') != 'for' or not s.get('init') or s['init']['k'] != 'decls' or len(s['init']['d']) != 1:
        return None
    v = s['init']['d'][0]
    if not _lit0(v.get('init')):
        return None
    cp = SX.cmp_parts(s.get('c')) if SX.is_node(s.get('c')) else None
    if not cp or cp[0] != '<' or SX.strip(cp[1]).get('id') != v['id']:
        return None
    w = SX.write_target(s['inc']) if SX.is_node(s.get('inc')) else None
    if not w or SX.strip(w[0]).get('id') != v['id'] or w[2] not in ('++', '+='):
        return None
    for n in SX.walk(s['body'], into_lambdas=False):
        if n['k'] in ('break', 'return'):
            return None
        ww = SX.write_target(n)
        if ww and SX.is_node(SX.strip(ww[0])) and SX.strip(ww[0]).get('id') == v['id']:
            return None
    return v, cp[2], (w[1] if w[2] == '+=' else None)


def _counted_from(s):
    """for (T v = START; v < B; ++v | v += S) with v untouched in the body and no break/return → (var decl, start, bound, stride|None)"""
    if s.get('k') != 'for' or not s.get('init') or s['init']['k'] != 'decls' or len(s['init']['d']) != 1:
        return None
    v = s['init']['d'][0]
    if not SX.is_node(v.get('init')):
        return None
    cp = SX.cmp_parts(s.get('c')) if SX.is_node(s.get('c')) else None
    if not cp or cp[0] != '<' or SX.strip(cp[1]).get('id') != v['id']:
        return None
    w = SX.write_target(s['inc']) if SX.is_node(s.get('inc')) else None
    if not w or SX.strip(w[0]).get('id') != v['id'] or w[2] not in ('++', '+='):
        return None
    for n in SX.walk(s['body'], into_lambdas=False):
        if n['k'] in ('break', 'return'):
            return None
        ww = SX.write_target(n)
        if ww and SX.is_node(SX.strip(ww[0])) and SX.strip(ww[0]).get('id') == v['id']:
            return None
    return v, v['init'], cp[2], (w[1] if w[2] == '+=' else None)


def _lin(e, bit_ids):
    """linear form {symbol: coefficient} of an index expression over the mask 2^q ('BIT'), variables ('v', id) and 1 (constant)"""
    e = SX.strip(e)
    while SX.is_node(e) and e.get('k') in ('cast', 'initlist'):
        e = SX.strip(e['e']) if e['k'] == 'cast' else (SX.strip(e['items'][0]) if len(e.get('items', [])) == 1 else None)
    if not SX.is_node(e):
        return None
    k = e['k']
    if k == 'int':
        return {1: e['v']} if e['v'] else {}
    if k == 'ref':
        return {'BIT': 1} if e.get('id') in bit_ids else {('v', e.get('id')): 1}
    if k == 'bin' and e['op'] in ('+', '-'):
        a, b = _lin(e['l'], bit_ids), _lin(e['r'], bit_ids)
        if a is None or b is None:
            return None
        out = dict(a)
        for kk, vv in b.items():
            out[kk] = out.get(kk, 0) + (vv if e['op'] == '+' else -vv)
        return {kk: vv for kk, vv in out.items() if vv}
    if k == 'bin' and e['op'] == '*':
        a, b = _lin(e['l'], bit_ids), _lin(e['r'], bit_ids)
        for x, y in ((a, b), (b, a)):
            if x is not None and y is not None and set(x) <= {1}:
                c = x.get(1, 0)
                return {kk: vv * c for kk, vv in y.items() if vv * c}
        return None
    if k == 'bin' and e['op'] == '<<':
        a, b = _lin(e['l'], bit_ids), _lin(e['r'], bit_ids)
        if a is not None and b is not None and set(b) <= {1} and 0 <= b.get(1, 0) < 8:
            return {kk: vv << b.get(1, 0) for kk, vv in a.items()}
    return None


def _halves(s, amp, bit_ids, aliases):
    """`for (block = 0 | bit; block < size; block += 2·bit) { for (i = block [+ bit]; i < block + bit [+ bit]; ++i) BODY … }` — the state
    vector walked block by block, each inner loop over the half with bit q clear or the half with bit q set (or over the offsets
    j ∈ [0, bit) of a pair) → list of visits {'iv', 'b', 'zero', 'body'} in execution order; None when the nest is not of this form"""
    c = _counted_from(s)
    if not c or not _is_size(c[2], amp, aliases) or c[3] is None:
        return None
    v, start, bound, stride = c
    if _lin(stride, bit_ids) != {'BIT': 2}:
        return None
    st = _lin(start, bit_ids)
    if st == {}:
        base = 0
    elif st == {'BIT': 1}:
        base = 1
    else:
        return None
    inner = s['body']['body'] if s['body'].get('k') == 'block' else [s['body']]
    if not inner or any(x.get('k') != 'for' for x in inner):
        return None
    B = ('v', v['id'])
    visits = []
    for lp in inner:
        ci = _counted_from(lp)
        if not ci or not (ci[3] is None or _lin(ci[3], bit_ids) == {1: 1}):
            return None
        iv, lo, hi, _ = ci
        lo_l, hi_l = _lin(lo, bit_ids), _lin(hi, bit_ids)
        if any(x.get('k') == 'ref' and x.get('id') == v['id'] and False for x in ()):
            return None
        if lo_l == {} and hi_l == {'BIT': 1} and base == 0:
            visits.append({'iv': None, 'b': 0, 'zero': {v['id'], iv['id']}, 'body': lp['body']})
        elif lo_l == {B: 1} and hi_l == {B: 1, 'BIT': 1}:
            visits.append({'iv': iv['id'], 'b': base, 'zero': set(), 'body': lp['body']})
        elif lo_l == {B: 1, 'BIT': 1} and hi_l == {B: 1, 'BIT': 2} and base == 0:
            visits.append({'iv': iv['id'], 'b': 1, 'zero': set(), 'body': lp['body']})
        else:
            return None
        # the block variable itself must not index the state inside a half loop (only through the inner variable)
    return visits


def run_visits(it, visits, pre=None):
    """one pair carried through the visits of a sweep plan, in order → (final cells, accumulated sums, cells written)"""
    cur = tuple(pre or A)
    acc = {}
    wrote = set()
    for vs in visits:
        it.iv = vs['iv']
        it.zero_vars = set(vs['zero'])
        cells, a = it.run(vs['body'], vs['b'], pre=cur)
        cur = (cells.get(0, cur[0]), cells.get(1, cur[1]))
        wrote |= set(cells)
        for k_, x in a.items():
            acc[k_] = acc.get(k_, 0) + x
    it.zero_vars = set()
    return cur, acc, wrote


def sweep_visits(sweep):
    """the visits a recognised sweep makes to one pair of cells, in order"""
    if sweep[0] == 'flat':
        return [{'iv': sweep[1]['id'], 'b': 0, 'zero': set(), 'body': sweep[2]}, {'iv': sweep[1]['id'], 'b': 1, 'zero': set(), 'body': sweep[2]}]
    if sweep[0] == 'blocked':
        return [{'iv': None, 'b': 0, 'zero': set(sweep[1]), 'body': sweep[2]}]
    return list(sweep[1])


def _is_size(e, amp, aliases):
    e = SX.strip(e)
    while SX.is_node(e) and e.get('k') == 'cast':
        e = SX.strip(e['e'])
    if SX.show(e) == amp + '.size()':
        return True
    return SX.is_node(e) and e.get('k') == 'ref' and e.get('id') in aliases


def size_aliases(fn_body, amp):
    """locals initialised to amp.size() and never written again"""
    out = set()
    written = set()
    for n in SX.walk(fn_body, into_lambdas=False):
        w = SX.write_target(n)
        if w and SX.is_node(SX.strip(w[0])) and SX.strip(w[0]).get('k') == 'ref':
            written.add(SX.strip(w[0]).get('id'))
    for v in SX.walk(fn_body, into_lambdas=False):
        if v['k'] == 'var' and SX.is_node(v.get('init')) and SX.show(SX.strip(v['init'])) == amp + '.size()' and v['id'] not in written:
            out.add(v['id'])
    return out


class BadSweep(NotPairwise):
    """the loop has the shape of a known sweep scheme over the pairs of qubit q but one of its ingredients is wrong"""


def _unwritten_locals(fn_body):
    written = set()
    decls = {}
    for n in SX.walk(fn_body, into_lambdas=False):
        w = SX.write_target(n)
        if w and SX.is_node(SX.strip(w[0])) and SX.strip(w[0]).get('k') == 'ref':
            written.add(SX.strip(w[0]).get('id'))
        if n.get('k') == 'var' and SX.is_node(n.get('init')):
            decls[n['id']] = n
    return {i: d for i, d in decls.items() if i not in written}


def _deposit(s, amp, bit_ids, aliases, fn_body):
    """`for (k = 0; k < size/2; ++k) { idx0 = ((k & ~(bit-1)) << 1) | (k & (bit-1)); … }` — the pairs enumerated by the bits of the
    other qubits: k is split around position q and a clear bit q is inserted, so idx0 runs over every index with bit q clear exactly
    once.  → one visit with idx0 as the bit-clear cell; BadSweep when the split mask is not 2^q − 1; None when not of this form."""
    c = _counted(s)
    if not c or not (c[2] is None or (SX.is_node(SX.strip(c[2])) and SX.strip(c[2]).get('v') == 1)):
        return None
    v, bound, _ = c
    loc = _unwritten_locals(fn_body) if fn_body is not None else {}

    def peel(e):
        e = SX.strip(e)
        while SX.is_node(e) and e.get('k') == 'cast':
            e = SX.strip(e['e'])
        return e

    def is_half(e, depth=0):
        e = peel(e)
        if not SX.is_node(e) or depth > 3:
            return False
        if e.get('k') == 'bin' and e['op'] == '>>' and _is_size(e['l'], amp, aliases) and peel(e['r']).get('v') == 1:
            return True
        if e.get('k') == 'bin' and e['op'] == '/' and _is_size(e['l'], amp, aliases) and peel(e['r']).get('v') == 2:
            return True
        return e.get('k') == 'ref' and e.get('id') in loc and is_half(loc[e['id']]['init'], depth + 1)

    def is_bit(e):
        e = peel(e)
        return SX.is_node(e) and e.get('k') == 'ref' and e.get('id') in bit_ids

    def low_mask(e, depth=0):
        """True: 2^q − 1; False: something else"""
        e = peel(e)
        if not SX.is_node(e) or depth > 3:
            return False
        if e.get('k') == 'bin' and e['op'] == '-' and is_bit(e['l']) and peel(e['r']).get('k') == 'int' and peel(e['r']).get('v') == 1:
            return True
        return e.get('k') == 'ref' and e.get('id') in loc and low_mask(loc[e['id']]['init'], depth + 1)

    if not is_half(bound):
        return None
    body = s['body']['body'] if s['body'].get('k') == 'block' else None
    if not body or body[0].get('k') != 'decls' or len(body[0]['d']) != 1:
        return None
    d = body[0]['d'][0]
    e = peel(d.get('init'))
    if not (SX.is_node(e) and e.get('k') == 'bin' and e['op'] in ('|', '+')):
        return None

    def is_k(x):
        x = peel(x)
        return SX.is_node(x) and x.get('k') == 'ref' and x.get('id') == v['id']

    def and_parts(x):
        x = peel(x)
        if SX.is_node(x) and x.get('k') == 'bin' and x['op'] == '&':
            if is_k(x['l']):
                return peel(x['r'])
            if is_k(x['r']):
                return peel(x['l'])
        return None
    hi = lo = None
    for a, b in ((e['l'], e['r']), (e['r'], e['l'])):
        a = peel(a)
        if SX.is_node(a) and a.get('k') == 'bin' and a['op'] == '<<' and peel(a['r']).get('v') == 1:
            m1 = and_parts(a['l'])
            m0 = and_parts(b)
            if m1 is not None and m0 is not None and m1.get('k') == 'un' and m1.get('op') == '~':
                hi, lo = peel(m1['e']), m0
    if hi is None:
        return None
    for n in SX.walk({'k': 'block', 'body': body[1:]}, into_lambdas=False):
        w = SX.write_target(n)
        if w and SX.is_node(SX.strip(w[0])) and SX.strip(w[0]).get('id') == d['id']:
            return None
    if not (low_mask(hi) and low_mask(lo)):
        raise BadSweep('the pairs are enumerated by splitting %s around the mask %s, which is not 2^q − 1: some pairs are visited twice and others never' % (
            v.get('name'), SX.show(lo if not low_mask(lo) else hi)[:30]))
    return [{'iv': None, 'b': 0, 'zero': {d['id']}, 'body': {'k': 'block', 'body': body[1:]}}]


def state_sweep(s, amp, bit_ids, aliases=(), fn_body=None):
    """('flat', loop var decl, body) | ('blocked', (outer var id, inner var id), body) | ('plan', visits) | None"""
    c = _counted(s)
    if bit_ids:
        dp = _deposit(s, amp, bit_ids, aliases, fn_body)
        if dp is not None:
            return ('plan', dp)
    if not c or not _is_size(c[1], amp, aliases):
        hv = _halves(s, amp, bit_ids, aliases)      # (a block loop may start at 2^q: the halves with bit q set)
        return ('plan', hv) if hv is not None else None
    v, bound, stride = c
    if stride is None or (SX.is_node(SX.strip(stride)) and SX.strip(stride).get('k') == 'int' and SX.strip(stride)['v'] == 1):
        return ('flat', v, s['body'])
    hv = _halves(s, amp, bit_ids, aliases)
    if hv is not None and not (len(hv) == 1 and hv[0]['iv'] is None):
        return ('plan', hv)
    # stride 2·bit with a single inner loop over [0, bit)
    st = SX.strip(stride)
    two_bit = False
    if SX.is_node(st) and st.get('k') == 'bin' and st['op'] == '*':
        a, b = SX.strip(st['l']), SX.strip(st['r'])
        for x, y in ((a, b), (b, a)):
            while SX.is_node(y) and y.get('k') == 'cast':
                y = SX.strip(y['e'])
            if SX.is_node(x) and x.get('k') == 'int' and x['v'] == 2 and SX.is_node(y) and y.get('k') == 'ref' and y.get('id') in bit_ids:
                two_bit = True
    if SX.is_node(st) and st.get('k') == 'bin' and st['op'] == '<<' and SX.strip(st['r']).get('v') == 1 and SX.strip(st['l']).get('id') in bit_ids:
        two_bit = True
    if not two_bit:
        return None
    inner = s['body']['body'] if s['body'].get('k') == 'block' else [s['body']]
    if len(inner) != 1 or inner[0].get('k') != 'for':
        return None
    ci = _counted(inner[0])
    if not ci or ci[2] is not None:
        return None
    b_ = SX.strip(ci[1])
    while SX.is_node(b_) and b_.get('k') == 'cast':
        b_ = SX.strip(b_['e'])
    if not (SX.is_node(b_) and b_.get('k') == 'ref' and b_.get('id') in bit_ids):
        return None
    return ('blocked', (v['id'], ci[0]['id']), inner[0]['body'])


def sweep_final(it, sweep):
    """state of one pair after the sweep passed it"""
    if sweep[0] == 'flat':
        it.iv = sweep[1]['id']
        return pair_final(it, sweep[2])
    if sweep[0] == 'plan':
        return run_visits(it, sweep[1])[0]
    it.iv = None
    it.zero_vars = set(sweep[1])
    c0, _ = it.run(sweep[2], 0)
    return (c0.get(0, A[0]), c0.get(1, A[1]))


# ---- two-bit groups: a flat sweep that distinguishes indices by two bits (cx) ---------------------------------------------------
class QuadIter:
    """Symbolic execution of one loop iteration for an index of class (c, t) = (control bit, target bit); the state of the
    four-cell group is a dict cell → symbol.  Supports index algebra with the two masks, bit tests, bool locals, continue,
    std::swap of two cells and plain cell assignments."""

    def __init__(self, amp, iv, cbits, tbits, bothbits=()):
        self.amp, self.iv, self.cbits, self.tbits = amp, iv, set(cbits), set(tbits)
        self.bothbits = set(bothbits)          # locals holding controlBit | targetBit

    def _p(self, e):
        e = SX.strip(e)
        while SX.is_node(e) and e.get('k') == 'cast':
            e = SX.strip(e['e'])
        return e

    def mask(self, e):
        e = self._p(e)
        if SX.is_node(e) and e.get('k') == 'ref':
            if e.get('id') in self.cbits:
                return 'c'
            if e.get('id') in self.tbits:
                return 't'
            if e.get('id') in self.bothbits:
                return 'ct'
        if SX.is_node(e) and e.get('k') == 'bin' and e.get('op') in ('|', '+', '^'):
            a, b = self.mask(e['l']), self.mask(e['r'])
            if {a, b} == {'c', 't'}:
                return 'ct'          # the two masks are distinct single bits (control ≠ target is checked before the sweep)
        return None

    def cell(self, e):
        e = self._p(e)
        if not SX.is_node(e):
            raise NotPairwise('index')
        if e['k'] == 'ref':
            if e.get('id') == self.iv:
                return self.cur
            if e.get('id') in self.idx:
                return self.idx[e['id']]
            raise NotPairwise('index variable ' + e.get('name', '?'))
        if e['k'] == 'bin' and e['op'] in ('|', '^', '+', '-'):
            for a, b in ((e['l'], e['r']), (e['r'], e['l'])):
                m = self.mask(b)
                if m == 'ct':
                    c, t = self.cell(a)
                    if e['op'] == '|':
                        return (1, 1)
                    if e['op'] == '^':
                        return (1 - c, 1 - t)
                    raise NotPairwise('index expression ' + SX.show(e)[:40])
                if m:
                    c, t = self.cell(a)
                    old = c if m == 'c' else t
                    if e['op'] == '|':
                        new = 1
                    elif e['op'] == '^':
                        new = 1 - old
                    elif e['op'] == '+':
                        if old != 0:
                            raise OutsidePair('adding a mask to an index that already has the bit')
                        new = 1
                    else:
                        if old != 1 or b is not e['r']:
                            raise OutsidePair('subtracting a mask from an index without the bit')
                        new = 0
                    return (new, t) if m == 'c' else (c, new)
        raise NotPairwise('index expression ' + SX.show(e)[:40])

    def cond(self, e):
        e = self._p(e)
        k = e['k']
        if k in ('bool', 'int'):
            return bool(e['v'])
        if k == 'ref' and e.get('id') in self.bools:
            return self.bools[e['id']]
        if k == 'un' and e['op'] == '!':
            return not self.cond(e['e'])
        if k == 'bin' and e['op'] == '&&':
            return self.cond(e['l']) and self.cond(e['r'])
        if k == 'bin' and e['op'] == '||':
            return self.cond(e['l']) or self.cond(e['r'])
        if k == 'bin' and e['op'] == '&':
            for a, b in ((e['l'], e['r']), (e['r'], e['l'])):
                m = self.mask(b)
                if m == 'ct':
                    c, t = self.cell(a)
                    return bool(c or t)
                if m:
                    c, t = self.cell(a)
                    return bool(c if m == 'c' else t)
        if k == 'bin' and e['op'] in ('!=', '==') and self._p(e['r']).get('k') == 'int' and self._p(e['r'])['v'] == 0:
            v = self.cond(e['l'])
            return v if e['op'] == '!=' else not v
        raise NotPairwise('condition ' + SX.show(e)[:50])

    def amp_val(self, e):
        e = self._p(e)
        if e['k'] == 'index' and SX.show(e['base']) == self.amp:
            return self.state[self.cell(e['i'])]
        if e['k'] == 'ref' and e.get('id') in self.temps:
            return self.temps[e['id']]
        if e['k'] == 'construct' and len(SX.real_args(e)) == 1:
            return self.amp_val(SX.real_args(e)[0])
        if e['k'] == 'call' and (e.get('callee') or '').startswith('std::move') and SX.real_args(e):
            return self.amp_val(SX.real_args(e)[0])
        raise NotPairwise('amplitude expression ' + SX.show(e)[:40])

    def run(self, body, cur, state):
        self.cur, self.state = cur, dict(state)
        self.idx, self.bools, self.temps = {}, {}, {}
        try:
            self.stmt(body)
        except _Continue:
            pass
        return self.state

    def stmt(self, s):
        if s is None:
            return
        k = s['k']
        if k == 'block':
            for c in s['body']:
                self.stmt(c)
        elif k == 'if':
            self.stmt(s['t'] if self.cond(s['c']) else s.get('e'))
        elif k == 'continue':
            raise _Continue()
        elif k == 'null':
            pass
        elif k == 'decls':
            for v in s['d']:
                t = v.get('type', '')
                if t == 'bool':
                    self.bools[v['id']] = self.cond(v['init'])
                elif 'complex' in t or t == 'auto':
                    self.temps[v['id']] = self.amp_val(v['init'])
                else:
                    self.idx[v['id']] = self.cell(v['init'])
        elif k == 'expr':
            e = SX.strip(s['e'])
            if e.get('k') == 'call' and (e.get('callee') or '').split('<')[0] in ('std::swap', 'swap') and len(SX.real_args(e)) == 2:
                a, b = [self._p(x) for x in SX.real_args(e)]
                ca, cb = self.cell(a['i']), self.cell(b['i'])
                self.state[ca], self.state[cb] = self.state[cb], self.state[ca]
                return
            w = SX.write_target(e)
            if w and w[2] == '=':
                l = self._p(w[0])
                if l.get('k') == 'index' and SX.show(l['base']) == self.amp:
                    self.state[self.cell(l['i'])] = self.amp_val(w[1])
                    return
                if l.get('k') == 'ref' and l.get('id') in self.temps:
                    self.temps[l['id']] = self.amp_val(w[1])
                    return
            raise NotPairwise('statement ' + SX.show(e)[:40])
        else:
            raise NotPairwise('statement ' + k)
