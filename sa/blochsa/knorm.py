"""K-NORM: helper inlining, scalar replacement of local records and copy propagation on the simplified syntax tree.

Rules that read one function's loops and locals (the simulator's measure/reset/apply kernels) lose sight of them when a
maintainer extracts a step into a helper: `const BranchWeights w = branchWeights(bit);`, `double r = sampleUnit();`,
`ensureQubitInRange(q);`.  This kernel rebuilds the one-function form the rules were written for — only by transformations that
preserve the meaning of the function exactly:

  inline     a call to a uniquely resolved, non-recursive helper of the same class or file whose body has no `return` other than a
             final one is replaced by the helper's statements (locals renamed per call site, reference parameters substituted by
             their side-effect-free arguments, value parameters bound as fresh locals) in these positions: an expression statement,
             the whole initialiser of a local (also `h(…).field`), the right-hand side of an assignment statement, a `return`.  A call
             nested deeper in an expression is inlined only when the helper is `pure declarations; return expr;` — the declarations are
             hoisted before the statement, the call becomes the returned expression.
  nrvo       `T v = h(…)` where the helper returns its own local: v *is* that local (the copy is elided, as in C++).
  sroa       a local record with only scalar fields that is used field by field becomes one scalar local per field.
  copy       `const T v = x;` at function level with x not written afterwards: v is x.

Anything else is left as it is (the rule then sees a call it does not understand and reports analysis-broken as before); the kernel
never guesses.  `normalise(prog, f)` returns f itself when nothing applied."""
import copy
import os
import sys
from . import sx as SX

SCALARS = ('double', 'float', 'int', 'bool', 'unsigned long', 'size_t', 'std::size_t', 'long', 'unsigned int', 'char', 'long long')
_IMPURE_OPS = ('=', '+=', '-=', '*=', '/=', '%=', '<<=', '>>=', '|=', '&=', '^=', '++', '--', '()')


def pure(e):
    """no side effects and no dependence on evaluation order"""
    for n in SX.walk(e):
        k = n['k']
        if k in ('assign', 'cassign', 'incdec', 'new', 'delete', 'throw', 'lambda'):
            return False
        if k == 'un' and n.get('op') in ('++', '--'):
            return False
        if k == 'mcall' and not n.get('constm'):
            return False
        if k == 'call' and not (n.get('callee', '').startswith('std::')):
            return False
        if k == 'opcall' and n.get('op') in _IMPURE_OPS:
            return False
    return True


def _base_type(t):
    t = (t or '').strip()
    for w in ('const ', 'volatile '):
        while t.startswith(w):
            t = t[len(w):]
    return t.rstrip('& ').strip()


def _locals_of(fn):
    ids = {p['id'] for p in fn.params if p.get('id')}
    for n in SX.walk(fn.body, into_lambdas=True):
        if n['k'] == 'var' and n.get('id'):
            ids.add(n['id'])
        if n['k'] == 'forrange' and SX.is_node(n.get('var')) and n['var'].get('id'):
            ids.add(n['var']['id'])
        if n['k'] == 'lambda':
            for p_ in n.get('params', []):
                if p_.get('id'):
                    ids.add(p_['id'])
        if n['k'] == 'if' and SX.is_node(n.get('cv')) and n['cv'].get('id'):
            ids.add(n['cv']['id'])
    return ids


def _clone(n, idmap, subst):
    """deep copy with local ids renamed and references to substituted parameters replaced"""
    if isinstance(n, list):
        return [_clone(x, idmap, subst) for x in n]
    if not isinstance(n, dict):
        return n
    if n.get('k') == 'ref' and n.get('id') in subst:
        return copy.deepcopy(subst[n['id']])
    out = {}
    for k, v in n.items():
        if k == 'id' and v in idmap:
            out[k] = idmap[v]
        else:
            out[k] = _clone(v, idmap, subst)
    if n.get('id') in idmap and isinstance(n.get('name'), str) and n.get('k') in ('ref', 'var'):
        # the copy of a helper's local is a different variable: it also prints differently (rules compare operand texts)
        out['name'] = n['name'] + idmap[n['id']][len(n['id']):]
    if out.get('k') == 'ref' and out.get('kind') == 'param' and n.get('id') in idmap:
        out['kind'] = 'var'
    return out


def _all_args(call):
    """arguments of a call with defaulted ones made explicit (the default value expression the compiler inserted)"""
    out = []
    for a in call.get('args', []):
        if SX.is_node(a) and a.get('k') == 'defaultarg':
            out.append(a.get('e'))
        else:
            out.append(a)
    return out


_LIBM = ('cos', 'sin', 'tan', 'exp', 'log', 'sqrt', 'pow', 'fabs', 'abs', 'floor', 'ceil', 'atan2', 'acos', 'asin', 'atan', 'fmod')


def _pure_function(h):
    """the function touches nothing but its parameters and locals: no `this`, no global written, no call outside the standard library"""
    local = _locals_of(h)
    for n in SX.walk(h.body):
        k = n['k']
        if k == 'this':
            return False
        if k in ('call', 'mcall') and not (n.get('callee') or '').startswith('std::') and (n.get('callee') or '') not in _LIBM:
            return False
        if k == 'ref' and n.get('global') and not (n.get('t') or '').startswith('const'):
            return False
        w = SX.write_target(n)
        if w:
            l = SX.strip(w[0])
            while SX.is_node(l) and l.get('k') in ('member', 'index'):
                l = SX.strip(l.get('base'))
            if not (SX.is_node(l) and l.get('k') == 'ref' and l.get('id') in local):
                return False
    return True


class _Pseudo:
    """a local closure presented as a helper function"""
    def __init__(self, key, name, params, body, host):
        self.key, self.name, self.params, self.body = key, name, params, body
        self.ret = 'auto'
        self.file, self.cls, self.kind, self.d = host.file, host.cls, 'closure', {}


def _beta(n):
    """apply closure literals where they are called: `([](auto a, auto b) { return a + b; })(x, y)` → `x + y` (single-return
    bodies, side-effect-free arguments)"""
    if isinstance(n, list):
        return [_beta(x) for x in n]
    if not isinstance(n, dict):
        return n
    n = {k: _beta(v) if isinstance(v, (dict, list)) else v for k, v in n.items()}
    lam, args = None, None
    if n.get('k') == 'call' and not n.get('callee') and SX.is_node(n.get('calleeExpr')) and SX.strip(n['calleeExpr']).get('k') == 'ref' \
            and SX.strip(n['calleeExpr']).get('kind') == 'var' and '(lambda' in (SX.strip(n['calleeExpr']).get('t') or ''):
        # a dependent call through a local closure variable (written inside a generic lambda): the ordinary closure-call form
        return {'k': 'opcall', 'op': '()', 'callee': '', 'args': [SX.strip(n['calleeExpr'])] + list(n.get('args', [])), 'ln': n.get('ln'), 'col': n.get('col'),
                't': n.get('t'), 'member': True}
    if n.get('k') == 'call' and not n.get('callee') and SX.is_node(n.get('calleeExpr')) and SX.strip(n['calleeExpr']).get('k') == 'lambda':
        lam, args = SX.strip(n['calleeExpr']), n.get('args', [])
    elif n.get('k') == 'opcall' and n.get('op') == '()' and n.get('args') and SX.is_node(SX.strip(n['args'][0])) and SX.strip(n['args'][0]).get('k') == 'lambda':
        lam, args = SX.strip(n['args'][0]), n['args'][1:]
    if n.get('k') == 'member':
        b_ = SX.strip(n.get('base'))
        if SX.is_node(b_) and b_.get('k') == 'initlist' and b_.get('fields') and n.get('name') in b_['fields'] and len(b_['fields']) == len(b_.get('items', [])) \
                and all(pure(it_) for it_ in b_['items']):
            return b_['items'][b_['fields'].index(n['name'])]      # `T{a, b}.second` is b
    if lam is not None:
        body = lam.get('body')
        st = body.get('body') if SX.is_node(body) and body.get('k') == 'block' else None
        if st and len(st) == 1 and st[0]['k'] == 'return' and SX.is_node(st[0].get('e')) and len(lam.get('params', [])) == len(args) and all(pure(a) for a in args):
            sub = {p_['id']: a for p_, a in zip(lam['params'], args)}
            return _clone(st[0]['e'], {}, sub)
    return n


class _Inliner:
    def __init__(self, prog, f, depth, keep=(), only=None):
        self.p = prog
        self.f = f
        self.depth = depth
        self.keep = set(keep)
        self.only = only          # when given: keys of the only functions that may be inlined
        self.count = 0
        self.serial = 0
        self.renames = {}      # caller var id → helper-local id (nrvo)
        self._early = {}
        self._clos = None

    # ---- which callees ---------------------------------------------------------------------------------------------------
    def _closures(self):
        """local closures of the function: variable id → lambda node, for variables that are never reassigned"""
        if self._clos is None:
            self._clos = {}
            written = set()
            for n in SX.walk(self.f.body):
                w = SX.write_target(n)
                if w and SX.is_node(SX.strip(w[0])) and SX.strip(w[0]).get('k') == 'ref':
                    written.add(SX.strip(w[0]).get('id'))
            for n in SX.walk(self.f.body):
                if n['k'] == 'var' and n.get('id') not in written and SX.is_node(n.get('init')) and SX.strip(n['init']).get('k') == 'lambda':
                    self._clos[n['id']] = SX.strip(n['init'])
        return self._clos

    def closure_callee(self, e, stack):
        """a call of a local closure that takes a closure literal (`arithmetic([](auto a, auto b) { return a + b; })`): such
        higher-order local closures are expanded like new helpers, the literal is substituted and applied (beta reduction)"""
        if self.only is not None and SX.is_node(e) and ((e.get('k') == 'call' and not e.get('callee') and SX.is_node(e.get('calleeExpr')) and SX.strip(e['calleeExpr']).get('k') == 'lambda') or
                                                        (e.get('k') == 'opcall' and e.get('op') == '()' and e.get('args') and SX.strip(e['args'][0]).get('k') == 'lambda')):
            # a closure literal applied on the spot (what remains of `fn(v)` once a higher-order helper was expanded with fn := literal)
            lam = SX.strip(e['calleeExpr']) if e.get('k') == 'call' else SX.strip(e['args'][0])
            nargs = len(e.get('args', [])) - (1 if e.get('k') == 'opcall' else 0)
            body = lam.get('body')
            if SX.is_node(body) and body.get('k') == 'block' and len(lam.get('params', [])) == nargs and not any(n['k'] == 'lambda' for n in SX.walk(body)):
                self.serial += 1
                h = _Pseudo('literal:%d:%s' % (self.serial, self.f.key), '%s::<closure literal@%s>' % (self.f.name, lam.get('ln')), lam.get('params', []), body, self.f)
                rets = [n for n in SX.walk(body, into_lambdas=False) if n['k'] == 'return']
                h.ret = 'auto' if any(r.get('e') is not None for r in rets) else 'void'
                bl = body.get('body')
                self._early[h.key] = bool(rets) and not (len(rets) == 1 and bl and bl[-1] is rets[0])
                h.literal_call = True
                return h
            return None
        if not (SX.is_node(e) and e.get('k') == 'opcall' and e.get('op') == '()' and e.get('args')):
            return None
        c = SX.strip(e['args'][0])
        if not (SX.is_node(c) and c.get('k') == 'ref' and c.get('id') in self._closures()):
            return None
        if self.only is None:
            return None       # closures are expanded only under the global new-helper policy
        lam = self._closures()[c['id']]
        if not any(SX.is_node(SX.strip(a)) and (SX.strip(a).get('k') == 'lambda' or (SX.strip(a).get('k') == 'ref' and SX.strip(a).get('id') in self._closures()))
                   for a in e['args'][1:]):
            return None      # (a closure literal, or another local closure passed by name)
        key = 'closure:%s:%s' % (c['id'], self.f.key)
        if key in stack or len(lam.get('params', [])) != len(e['args']) - 1:
            return None
        body = lam.get('body')
        if not (SX.is_node(body) and body.get('k') == 'block'):
            return None
        if any(n['k'] == 'lambda' for n in SX.walk(body)) or sum(1 for _ in SX.walk(body)) > 300:
            return None
        if any(n.get('k') == 'opcall' and n.get('op') == '()' and n.get('args') and SX.strip(n['args'][0]).get('id') == c['id'] for n in SX.walk(body)):
            return None
        h = _Pseudo(key, '%s::<closure %s>' % (self.f.name, c.get('name')), lam.get('params', []), body, self.f)
        rets = [n for n in SX.walk(body, into_lambdas=False) if n['k'] == 'return']
        h.ret = 'auto' if any(r.get('e') is not None for r in rets) else 'void'
        bl = body.get('body')
        self._early[h.key] = bool(rets) and not (len(rets) == 1 and bl and bl[-1] is rets[0])
        return h

    def callee(self, e, stack):
        if not (SX.is_node(e) and e.get('k') in ('call', 'mcall')) or (e.get('k') == 'call' and not e.get('callee')):
            return self.closure_callee(e, stack)
        if e['k'] == 'mcall':
            o = SX.strip(e.get('obj'))
            if not (SX.is_node(o) and o.get('k') == 'this'):
                return None
        ts = [t for t in self.p.resolve(e) if t.body]
        if len(ts) != 1:
            return None
        h = ts[0]
        if h.name in self.keep:
            return None
        if self.only is not None and h.key not in self.only:
            return None
        if h.kind in ('lambda', 'ctor', 'dtor') or h.key in stack or h is self.f or not (h.file == self.f.file or (h.cls is not None and h.cls == self.f.cls)):
            return None
        if len(h.params) != len(_all_args(e)) or h.d.get('virtual'):
            return None
        if self.only is None and any(n['k'] == 'lambda' for n in SX.walk(h.body)):
            return None       # (under the global new-helper policy lambdas are collected after inlining, so helpers may hold closures)
        if sum(1 for _ in SX.walk(h.body)) > (1500 if self.only is not None else 400):
            return None
        body = h.body.get('body') if h.body.get('k') == 'block' else None
        if body is None:
            return None
        rets = [n for n in SX.walk(h.body, into_lambdas=False) if n['k'] == 'return']
        h_early = bool(rets) and not (len(rets) == 1 and body and body[-1] is rets[0])
        self._early[h.key] = h_early
        if self.only is not None and h_early and (h.ret or 'void').strip() != 'void' and _pure_function(h):
            # a value computed by case distinction from the arguments alone (a matrix builder, a predicate): rules read such a
            # function as a function (expression folding, K-ABS) — turning it into statements would hide the value
            return None
        if any(n['k'] in ('goto', 'label', 'unkstmt') or (n['k'] == 'var' and n.get('static')) for n in SX.walk(h.body)):
            return None      # a static local is one object for all calls: not expressible after inlining
        # a helper that calls itself (directly) is not inlined
        if any(n.get('k') in ('call', 'mcall') and n.get('callee') == h.name for n in SX.walk(h.body)):
            return None
        return h

    def expand(self, call, h, stack, pure_only=False, tail=False):
        """(prefix statements, returned expression or None) for one call of h, or None when the call cannot be inlined"""
        args = _all_args(call) if call.get('k') != 'opcall' else list(call['args'][1:])
        if getattr(h, 'literal_call', False) and call.get('k') == 'call':
            args = list(call.get('args', []))
        self.serial += 1
        tag = '@%d' % self.serial
        idmap = {i: i + tag for i in _locals_of(h)}
        subst = {}
        prefix = []
        writes = set()
        for n in SX.walk(h.body):
            w = SX.write_target(n)
            if w:
                l = SX.strip(w[0])
                while SX.is_node(l) and l.get('k') in ('member', 'index'):
                    l = SX.strip(l.get('base'))
                if SX.is_node(l) and l.get('k') == 'ref':
                    writes.add(l.get('id'))
        for prm, a in zip(h.params, args):
            t = (prm.get('type') or '').strip()
            if not prm.get('id'):
                if not pure(a):
                    return None
                continue
            if SX.is_node(SX.strip(a)) and SX.strip(a).get('k') == 'lambda':
                subst[prm['id']] = SX.strip(a)       # a closure literal handed to a higher-order closure: applied where it is called
                continue
            if t.endswith('&'):
                if pure(a):
                    subst[prm['id']] = a
                    continue
                if t.startswith('const'):
                    prefix.append({'k': 'decls', 'ln': call.get('ln'), 'd': [{'k': 'var', 'id': idmap[prm['id']], 'name': prm.get('name', '') + tag, 'type': t, 'init': a,
                                                                               'ln': call.get('ln'), 'col': call.get('col')}]})
                    continue
                return None
            if pure_only and not pure(a):
                return None
            prefix.append({'k': 'decls', 'ln': call.get('ln'), 'd': [{'k': 'var', 'id': idmap[prm['id']], 'name': prm.get('name', '') + tag, 'type': t, 'init': a,
                                                                       'ln': call.get('ln'), 'col': call.get('col'), 'from_param': True}]})
        body = h.body['body']
        ret = None
        stmts = body
        if tail and (self._early.get(h.key) or isinstance(h, _Pseudo)):
            # `return h(…);` — returning from the helper is returning from the caller: the body is spliced with its returns kept
            out = []
            for s_ in prefix + _beta(_clone(body, idmap, subst)):
                out.extend(self.stmt(s_, stack | {h.key}, self.depth - len(stack) - 1))
            self.count += 1
            return out, 'TAIL'
        if self._early.get(h.key):
            # `return`s anywhere in the helper: the body becomes an inlineblock whose returns are jumps to its end (ireturn);
            # a returned value goes through a fresh result local
            if pure_only:
                return None
            rid = '__ret' + tag
            void = (h.ret or 'void').strip() == 'void'

            def rwret(n):
                if isinstance(n, list):
                    return [rwret(x) for x in n]
                if not isinstance(n, dict) or n.get('k') == 'lambda':
                    return n
                if n.get('k') == 'return':
                    e_ = n.get('e')
                    if e_ is None or void:
                        pre_ = [{'k': 'expr', 'e': e_, 'ln': n.get('ln')}] if (e_ is not None and not pure(e_)) else []
                        return {'k': 'block', 'ln': n.get('ln'), 'body': pre_ + [{'k': 'ireturn', 'ln': n.get('ln')}]} if pre_ else {'k': 'ireturn', 'ln': n.get('ln')}
                    return {'k': 'block', 'ln': n.get('ln'), 'body': [
                        {'k': 'expr', 'ln': n.get('ln'), 'e': {'k': 'assign', 'op': '=', 'ln': n.get('ln'), 'l': {'k': 'ref', 'kind': 'var', 'id': rid, 'name': '__ret', 't': h.ret}, 'r': e_, 't': h.ret}},
                        {'k': 'ireturn', 'ln': n.get('ln')}]}
                return {k_: rwret(v_) for k_, v_ in n.items()}
            cl = rwret(_beta(_clone(body, idmap, subst)))
            inner = []
            for s_ in cl:
                inner.extend(self.stmt(s_, stack | {h.key}, self.depth - len(stack) - 1))
            pre_stmts = []
            for s_ in prefix:
                pre_stmts.extend(self.stmt(s_, stack | {h.key}, self.depth - len(stack) - 1))
            if not void:
                pre_stmts.append({'k': 'decls', 'ln': call.get('ln'), 'd': [{'k': 'var', 'id': rid, 'name': '__ret', 'type': h.ret, 'init': None, 'ln': call.get('ln'), 'col': call.get('col')}]})
            blk = {'k': 'inlineblock', 'ln': call.get('ln'), 'col': call.get('col'), 'from': h.name, 'body': {'k': 'block', 'ln': call.get('ln'), 'body': inner}}
            self.count += 1
            return pre_stmts + [blk], (None if void else {'k': 'ref', 'kind': 'var', 'id': rid, 'name': '__ret', 't': h.ret, 'ln': call.get('ln')})
        if body and body[-1]['k'] == 'return':
            ret = body[-1].get('e')
            stmts = body[:-1]
        if pure_only:
            for s in stmts:
                if s['k'] != 'decls' or not all(v.get('init') is None or pure(v['init']) for v in s['d']):
                    return None
            if ret is None:
                return None
        cl = _beta(_clone(stmts, idmap, subst))
        out = []
        for s in prefix + cl:
            out.extend(self.stmt(s, stack | {h.key}, self.depth - len(stack) - 1))
        rexp = _beta(_clone(ret, idmap, subst)) if ret is not None else None
        self.count += 1
        return out, rexp

    # ---- statements --------------------------------------------------------------------------------------------------------
    def stmts(self, lst, stack, depth):
        out = []
        for s in lst:
            out.extend(self.stmt(s, stack, depth))
        return out

    def _wrap(self, lst, like):
        if len(lst) == 1:
            return lst[0]
        return {'k': 'block', 'ln': like.get('ln'), 'col': like.get('col'), 'body': lst}

    def stmt(self, s, stack, depth):
        if not SX.is_node(s):
            return [s]
        k = s['k']
        if k == 'block':
            return [dict(s, body=self.stmts(s['body'], stack, depth))]
        if k == 'if':
            out = dict(s)
            pre = []
            if depth > 0 and SX.is_node(s.get('c')) and not s.get('init') and not s.get('cv'):
                c0 = SX.strip(s['c'])
                h = self.closure_callee(c0, stack) if SX.is_node(c0) and c0.get('k') in ('call', 'opcall') else None
                r = self.expand(c0, h, stack) if (h is not None and getattr(h, 'literal_call', False)) else None
                if r is not None and r[1] is not None:
                    # `if (visit(x))` with visit := a closure literal (a higher-order helper was expanded): the literal's body runs
                    # once, right before the test
                    pre, out['c'] = r
                else:
                    pre, out['c'] = self.nested(s['c'], stack)
            for key in ('t', 'e'):
                if SX.is_node(s.get(key)):
                    out[key] = self._wrap(self.stmt(s[key], stack, depth), s[key])
            return pre + [out]
        if k == 'forrange' and depth > 0 and SX.is_node(SX.strip(s.get('range'))) and SX.strip(s['range']).get('k') in ('call', 'mcall'):
            # `for (x : layoutOrder(program))` — the range expression is evaluated once, before the loop: a helper there is expanded
            # in front of it and the loop runs over the helper's result
            r0 = SX.strip(s['range'])
            h = self.callee(r0, stack)
            r = self.expand(r0, h, stack) if h is not None else None
            if r is not None and r[1] is not None:
                pre, rexp = r
                rr = SX.strip(rexp)
                if SX.is_node(rr) and rr.get('k') == 'ref':
                    out = dict(s, range=rexp)
                else:
                    self.serial += 1
                    tid = '__range@%d' % self.serial
                    pre = pre + [{'k': 'decls', 'ln': s.get('ln'), 'd': [{'k': 'var', 'id': tid, 'name': tid, 'type': r0.get('t') or h.ret or 'auto', 'init': rexp,
                                                                          'ln': s.get('ln'), 'col': s.get('col')}]}]
                    out = dict(s, range={'k': 'ref', 'kind': 'var', 'id': tid, 'name': tid, 't': r0.get('t') or h.ret or 'auto', 'ln': s.get('ln')})
                if SX.is_node(s.get('body')):
                    out['body'] = self._wrap(self.stmt(s['body'], stack, depth), s['body'])
                return pre + [out]
        if k in ('for', 'while', 'do', 'forrange', 'switch', 'case', 'default'):
            out = dict(s)
            for key in ('body', 's'):
                if SX.is_node(s.get(key)):
                    out[key] = self._wrap(self.stmt(s[key], stack, depth), s[key])
            return [out]
        if k == 'try':
            out = dict(s, body=self._wrap(self.stmt(s['body'], stack, depth), s['body']))
            out['handlers'] = [dict(h, body=self._wrap(self.stmt(h['body'], stack, depth), h['body'])) for h in s.get('handlers', [])]
            return [out]
        if depth <= 0:
            return [s]
        if k == 'expr':
            e = SX.strip(s.get('e'))
            e0 = e
            while SX.is_node(e0) and e0.get('k') == 'cast':          # (void)h(…)
                e0 = SX.strip(e0['e'])
            h = self.callee(e0, stack)
            if h is not None:
                r = self.expand(e0, h, stack)
                if r is not None:
                    pre, rexp = r
                    if rexp is not None and not pure(rexp):
                        pre = pre + [{'k': 'expr', 'e': rexp, 'ln': s.get('ln'), 'col': s.get('col')}]
                    return pre if pre else [{'k': 'null', 'ln': s.get('ln')}]
            if SX.is_node(e) and e.get('k') == 'assign' and pure(e.get('l')):
                h = self.callee(SX.strip(e.get('r')), stack)
                if h is not None:
                    r = self.expand(SX.strip(e['r']), h, stack)
                    if r is not None and r[1] is not None:
                        return r[0] + [dict(s, e=dict(e, r=r[1]))]
            if SX.is_node(e) and e.get('k') == 'opcall' and e.get('op') == '=' and len(e.get('args', [])) == 2 and pure(e['args'][0]):
                # assignment through an overloaded operator= (`left = parseBinaryOperator(…)` on a unique_ptr)
                h = self.callee(SX.strip(e['args'][1]), stack)
                if h is not None:
                    r = self.expand(SX.strip(e['args'][1]), h, stack)
                    if r is not None and r[1] is not None:
                        return r[0] + [dict(s, e=dict(e, args=[e['args'][0], r[1]]))]
            if SX.is_node(e0) and e0.get('k') in ('call', 'mcall') and e0.get('args'):
                # `v.push_back(makeNode(a, b));` — a helper call that is the only argument with effects: evaluated first, so it can be
                # computed into a temporary in front of the statement
                objpure = e0.get('k') != 'mcall' or pure(e0.get('obj'))
                for i_, a_ in enumerate(e0['args']):
                    a0 = SX.strip(a_)
                    wrap = []
                    while SX.is_node(a0) and (a0.get('k') == 'cast' or (a0.get('k') == 'call' and (a0.get('callee') or '').startswith('std::move') and len(a0.get('args', [])) == 1)
                                              or (a0.get('k') == 'construct' and len(SX.real_args(a0)) == 1)):
                        wrap.append(a0)
                        a0 = SX.strip(a0['e'] if a0['k'] == 'cast' else SX.real_args(a0)[0])
                    h = self.callee(a0, stack)
                    if h is None or not objpure or not all(pure(x) for j_, x in enumerate(e0['args']) if j_ != i_):
                        continue
                    r = self.expand(a0, h, stack)
                    if r is None or r[1] is None:
                        continue
                    self.serial += 1
                    tid = '__arg@%d' % self.serial
                    tdecl = {'k': 'decls', 'ln': s.get('ln'), 'd': [{'k': 'var', 'id': tid, 'name': '__arg@%d' % self.serial, 'type': a0.get('t') or h.ret or 'auto', 'init': r[1],
                                                                    'ln': s.get('ln'), 'col': s.get('col')}]}
                    ref = {'k': 'ref', 'kind': 'var', 'id': tid, 'name': '__arg@%d' % self.serial, 't': a0.get('t') or h.ret or 'auto', 'ln': s.get('ln')}
                    nargs = list(e0['args'])
                    nargs[i_] = ref
                    ne0 = dict(e0, args=nargs)
                    return r[0] + [tdecl, dict(s, e=ne0)]
            pre, ne = self.nested(s.get('e'), stack)
            return pre + [dict(s, e=ne)] if (pre or ne is not s.get('e')) else [s]
        if k == 'return':
            e = SX.strip(s.get('e'))
            h = self.callee(e, stack)
            if h is not None:
                r = self.expand(e, h, stack, tail=True)
                if r is not None and r[1] == 'TAIL':
                    if (h.ret or 'void').strip() == 'void':
                        return r[0] + [dict(s, e=None)]
                    # every path of a value-returning helper ends in its own return
                    return r[0]
                if r is not None and r[1] is not None:
                    return r[0] + [dict(s, e=r[1])]
            if SX.is_node(s.get('e')):
                pre, ne = self.nested(s['e'], stack)
                return pre + [dict(s, e=ne)] if (pre or ne is not s.get('e')) else [s]
            return [s]
        if k == 'decls':
            out = []
            cur = []
            for v in s['d']:
                nv = v
                init = v.get('init')
                if SX.is_node(init):
                    path = []          # wrappers around the call: casts, single-argument copy constructions, one member access
                    e = SX.strip(init)
                    while SX.is_node(e) and (e.get('k') == 'cast' or (e.get('k') == 'construct' and len(SX.real_args(e)) == 1) or
                                             (e.get('k') == 'member' and not any(p_[0] == 'member' for p_ in path))):
                        if e['k'] == 'cast':
                            path.append(('cast', e))
                            e = SX.strip(e['e'])
                        elif e['k'] == 'construct':
                            path.append(('construct', e))
                            e = SX.strip(SX.real_args(e)[0])
                        else:
                            path.append(('member', e))
                            e = SX.strip(e['base'])
                    h = self.callee(e, stack)
                    r = self.expand(e, h, stack) if h is not None else None
                    if r is not None and r[1] is not None:
                        pre, rexp = r
                        if cur:
                            out.append(dict(s, d=cur))
                            cur = []
                        out.extend(pre)
                        rr = SX.strip(rexp)
                        if not path and SX.is_node(rr) and rr.get('k') == 'ref' and rr.get('kind') in ('var', None) and '@' in str(rr.get('id', '')) \
                                and _base_type(rr.get('t')) == _base_type(v.get('type')) \
                                and (not (v.get('type') or '').rstrip().endswith('&') or
                                     ((v.get('type') or '').lstrip().startswith('const') and not (getattr(h, 'ret', '') or '').rstrip().endswith('&'))):
                            # (a const reference bound to a helper's by-value result names that result object for its whole scope)
                            # nrvo: the declared variable is the helper's returned local
                            self.renames[v['id']] = rr['id']
                            continue
                        ni = rexp
                        for kind, node in reversed(path):
                            if kind == 'cast':
                                ni = dict(node, e=ni)
                            elif kind == 'member':
                                ni = dict(node, base=ni)
                            else:
                                ni = rexp if _base_type(node.get('type')) == _base_type(SX.strip(rexp).get('t')) else dict(node, args=[ni])
                        nv = dict(v, init=ni)
                    else:
                        pre, ni = self.nested(init, stack)
                        if pre:
                            if cur:
                                out.append(dict(s, d=cur))
                                cur = []
                            out.extend(pre)
                        if pre or ni is not init:
                            nv = dict(v, init=ni)
                cur.append(nv)
            if cur:
                out.append(dict(s, d=cur) if (len(cur) != len(s['d']) or any(a is not b for a, b in zip(cur, s['d']))) else s)
            return out
        return [s]

    def nested(self, e, stack):
        """inline calls of `pure declarations; return expr;` helpers anywhere inside expression e → (hoisted declarations, new e)"""
        pre = []

        def rec(n):
            if isinstance(n, list):
                nl = [rec(x) for x in n]
                return nl if any(a is not b for a, b in zip(nl, n)) else n
            if not isinstance(n, dict):
                return n
            if n.get('k') == 'lambda':
                # statements of a closure body are normalised like any other statements (new helpers called from a deleter or a
                # callback are inlined there too)
                if self.only is not None and SX.is_node(n.get('body')) and n['body'].get('k') == 'block':
                    before = self.count
                    nb_ = self.stmts(n['body']['body'], stack, self.depth - len(stack))
                    if self.count != before:
                        return dict(n, body=dict(n['body'], body=nb_))
                return n
            if n.get('k') in ('call', 'mcall'):
                h = self.callee(n, stack)
                if h is not None and all(pure(a) for a in SX.real_args(n)):
                    r = self.expand(n, h, stack, pure_only=True)
                    if r is not None:
                        pre.extend(r[0])
                        return r[1]
            out = None
            for key, v in n.items():
                if isinstance(v, (dict, list)):
                    nv = rec(v)
                    if nv is not v:
                        if out is None:
                            out = dict(n)
                        out[key] = nv
            return out if out is not None else n
        ne = rec(e)
        return pre, ne


def _rename_refs(n, ren, names=None):
    if names is None:
        names = {}
    if isinstance(n, list):
        return [_rename_refs(x, ren, names) for x in n]
    if not isinstance(n, dict):
        return n
    out = {k: _rename_refs(v, ren, names) for k, v in n.items()}
    if out.get('k') == 'ref' and out.get('id') in ren:
        out['was'] = out.get('name')
        out['id'] = ren[out['id']]
        if out['id'] in names:
            out['name'] = names[out['id']]
        if out['id'] in _PARAM_IDS[0]:
            out['kind'] = 'param'       # renamed onto a parameter of the enclosing function
    return out


def _names_of(body, params=()):
    names = {p_['id']: p_.get('name', '') for p_ in params if p_.get('id')}
    for n in SX.walk(body):
        if n['k'] == 'var' and n.get('id'):
            names[n['id']] = n.get('name', '')
        if n['k'] == 'forrange' and SX.is_node(n.get('var')) and n['var'].get('id'):
            names[n['var']['id']] = n['var'].get('name', '')
    return names


def _sroa(prog, body):
    """local records with scalar fields only, used field by field → one scalar local per field"""
    vars_ = {}
    for n in SX.walk(body):
        if n['k'] == 'var' and n.get('id'):
            vars_[n['id']] = n
    cands = {}
    for vid, v in vars_.items():
        rec = prog.facts.records.get(_base_type(v.get('type')))
        if not rec or (v.get('type') or '').rstrip().endswith(('&', '*')):
            continue
        fields = rec.get('fields', [])
        if not fields or rec.get('bases') or any(f_.get('static') for f_ in fields):
            continue
        if not all(_base_type(f_['type']) in SCALARS or _base_type(f_['type']).endswith('*') or _base_type(f_['type']).startswith(('std::string', 'std::basic_string'))
                   for f_ in fields):
            continue
        init = SX.strip(v.get('init')) if SX.is_node(v.get('init')) else None
        vals = None
        if init is None:
            continue      # uninitialised record: leave it
        if init.get('k') == 'initlist' and len(init.get('items', [])) == len(fields):
            names = init.get('fields') or [f_['name'] for f_ in fields]
            if list(names) == [f_['name'] for f_ in fields]:
                vals = dict(zip(names, init['items']))
        if vals is None and init.get('k') in ('construct', 'initlist') and not (SX.real_args(init) if init['k'] == 'construct' else init.get('items')) \
                and all(f_.get('init') is not None for f_ in fields) and not rec.get('methods'):
            vals = {f_['name']: f_['init'] for f_ in fields}      # default member initialisers
        if vals is None:
            continue
        cands[vid] = (v, fields, vals)
    if not cands:
        return body, 0
    # every reference must be the base of a member access
    from .ktry import parent_map
    pm = parent_map(body)
    for n in SX.walk(body):
        if n['k'] == 'ref' and n.get('id') in cands:
            par = pm.get(id(n))
            if not (par is not None and par.get('k') == 'member' and SX.strip(par.get('base')) is n):
                cands.pop(n['id'], None)
    if not cands:
        return body, 0

    def rw(n):
        if isinstance(n, list):
            return [rw(x) for x in n]
        if not isinstance(n, dict):
            return n
        if n.get('k') == 'member':
            b = SX.strip(n.get('base'))
            if SX.is_node(b) and b.get('k') == 'ref' and b.get('id') in cands:
                v, fields, vals = cands[b['id']]
                return {'k': 'ref', 'kind': 'var', 'id': '%s#%s' % (b['id'], n['name']), 'name': '%s.%s' % (v.get('name', ''), n['name']), 't': _base_type(n.get('t')),
                        'ln': n.get('ln'), 'col': n.get('col')}
        if n.get('k') == 'decls':
            nd = []
            for v in n['d']:
                if v.get('id') in cands:
                    _, fields, vals = cands[v['id']]
                    for f_ in fields:
                        nd.append({'k': 'var', 'id': '%s#%s' % (v['id'], f_['name']), 'name': '%s.%s' % (v.get('name', ''), f_['name']), 'type': _base_type(f_['type']),
                                   'init': rw(vals[f_['name']]), 'ln': v.get('ln'), 'col': v.get('col'), 'from_param': True, 'sroa': True})
                else:
                    nd.append(rw(v))
            return dict(n, d=nd)
        return {k: rw(v) for k, v in n.items()}
    return rw(body), len(cands)


_PROG = [None]
_PARAM_IDS = [frozenset()]
_STD_BYVALUE = ('std::to_string', 'std::abs', 'std::sqrt', 'std::norm', 'std::min', 'std::max', 'std::floor', 'std::ceil', 'std::pow', 'std::exp', 'std::cos',
                'std::sin', 'std::real', 'std::imag', 'std::conj', 'std::isspace', 'std::isdigit', 'std::isalpha', 'std::isalnum')
NAMES = [{}]
_PARAMS = [()]


def _writes_of(s):
    ws = set()
    for n in SX.walk(s):
        w = SX.write_target(n)
        if w:
            l = SX.strip(w[0])
            if SX.is_node(l) and l.get('k') == 'ref':
                ws.add(l.get('id'))
        if n['k'] == 'un' and n.get('op') in ('&', '++', '--') and SX.is_node(SX.strip(n.get('e'))) and SX.strip(n['e']).get('k') == 'ref':
            ws.add(SX.strip(n['e']).get('id'))
        if n['k'] in ('call', 'mcall', 'construct', 'opcall'):
            # a local handed to a callee may be bound to a non-const reference: treat as written — unless the callee is resolved
            # and takes that argument by value or by const reference
            ptypes = None
            if n['k'] == 'call' and (n.get('callee') or '').split('<')[0] in _STD_BYVALUE:
                continue
            if n['k'] == 'construct' and (n.get('type') or '').startswith(('std::basic_string', 'std::string', 'std::complex', 'std::vector', 'std::shared_ptr', 'std::unique_ptr',
                                                                            'std::weak_ptr', 'std::pair', 'std::optional')):
                continue
            if n['k'] == 'mcall' and (n.get('callee') or '').startswith('std::') and (n.get('callee') or '').split('::')[-1] not in ('swap', 'getline', 'read', 'merge', 'splice', 'extract'):
                continue      # standard container / string member functions take their arguments by value or const reference
            if n['k'] == 'opcall' and n.get('op') not in ('>>', '()'):
                continue      # operator arguments are taken by value / const reference (the left operand is covered by write_target)
            if _PROG[0] is not None and n['k'] in ('call', 'mcall'):
                ts = [t for t in _PROG[0].resolve(n)]
                if ts and all(len(t.params) == len(SX.real_args(n)) for t in ts):
                    ptypes = [[(p_.get('type') or '').strip() for p_ in t.params] for t in ts]
            if ptypes is None and n['k'] in ('call', 'mcall') and isinstance(n.get('sig'), str) and n['sig'].startswith('('):
                # unresolved (library) callee: the parameter types recorded with the call
                inner, depth_, cur_, parts_ = n['sig'][1:-1], 0, '', []
                for ch in inner:
                    if ch in '<(':
                        depth_ += 1
                    elif ch in '>)':
                        depth_ -= 1
                    if ch == ',' and depth_ == 0:
                        parts_.append(cur_.strip())
                        cur_ = ''
                    else:
                        cur_ += ch
                if cur_.strip():
                    parts_.append(cur_.strip())
                if len(parts_) == len(SX.real_args(n)):
                    ptypes = [parts_]
            for j_, a_ in enumerate(SX.real_args(n) if n['k'] in ('call', 'mcall') else (n.get('args') or [])):
                a_ = SX.strip(a_)
                if SX.is_node(a_) and a_.get('k') == 'ref' and a_.get('kind') in ('var', 'param') and not (a_.get('t') or '').startswith('const'):
                    if ptypes is not None and all((not pt[j_].endswith('&')) or pt[j_].startswith('const') for pt in ptypes):
                        continue
                    ws.add(('arg', a_.get('id')))
    return ws


def _merge_init(body):
    """`T v = <literal>;` followed in the same block — before any other mention of v — by `v = E;` (E not mentioning v): `T v = E;`
    (records filled field by field after default construction, once scalarised)"""
    cnt = [0]

    def mentions(n, vid):
        return any(x.get('k') == 'ref' and x.get('id') == vid for x in SX.walk(n))

    def block(b):
        if isinstance(b, list):
            return [block(x) for x in b]
        if not isinstance(b, dict) or b.get('k') == 'lambda':
            return b
        b = {k: (block(v) if isinstance(v, (dict, list)) else v) for k, v in b.items()}
        if b.get('k') != 'block':
            return b
        top = list(b['body'])
        changed = True
        while changed:
            changed = False
            # split multi-variable declaration statements produced by scalarisation
            flat = []
            for st in top:
                if st.get('k') == 'decls' and len(st['d']) > 1 and all(v.get('sroa') for v in st['d']):
                    flat.extend({'k': 'decls', 'ln': st.get('ln'), 'd': [v]} for v in st['d'])
                else:
                    flat.append(st)
            top = flat
            for i, st in enumerate(top):
                if st.get('k') != 'decls' or len(st['d']) != 1:
                    continue
                v = st['d'][0]
                init = SX.strip(v.get('init')) if SX.is_node(v.get('init')) else None
                if init is None or init.get('k') not in ('bool', 'int', 'float', 'nullptr', 'str', 'char') or not v.get('sroa'):
                    continue
                for j in range(i + 1, len(top)):
                    s2 = top[j]
                    if s2.get('k') == 'expr':
                        w = SX.write_target(SX.strip(s2.get('e')))
                        if w and w[2] == '=' and SX.is_node(SX.strip(w[0])) and SX.strip(w[0]).get('k') == 'ref' and SX.strip(w[0]).get('id') == v['id'] \
                                and not mentions(w[1], v['id']):
                            top[i] = dict(st, d=[dict(v, init=w[1])])
                            del top[j]
                            cnt[0] += 1
                            changed = True
                            break
                    if mentions(s2, v['id']):
                        break
                if changed:
                    break
        return dict(b, body=top)
    nb = block(body)
    return nb, cnt[0]


def _member_stable(stmts, name):
    """no statement writes this->name or calls a non-const member function / unknown function that could"""
    for st in stmts:
        for n in SX.walk(st):
            w = SX.write_target(n)
            if w:
                l = SX.strip(w[0])
                while SX.is_node(l) and l.get('k') in ('index',):
                    l = SX.strip(l.get('base'))
                if SX.is_this_member(l, name):
                    return False
            if n['k'] == 'mcall':
                o = SX.strip(n.get('obj'))
                if SX.is_node(o) and o.get('k') == 'this' and not n.get('constm'):
                    return False
                if SX.is_this_member(o, name) and not n.get('constm'):
                    return False
            if n['k'] == 'un' and n.get('op') in ('++', '--') and SX.is_this_member(SX.strip(n.get('e')), name):
                return False
    return True


def _copyprop(body):
    """`[const] T v = x;` in a block, with v never written and x a scalar local not written by any later statement of that block: v is
    x (v's scope ends with the block, and a loop around the block re-executes the declaration)"""
    allw = _writes_of(body)
    total = [0]
    NAMES[0] = _names_of(body, _PARAMS[0])

    def block(b):
        if isinstance(b, list):
            return [block(x) for x in b]
        if not isinstance(b, dict) or b.get('k') == 'lambda':
            return b
        b = {k: (block(v) if isinstance(v, (dict, list)) else v) for k, v in b.items()}
        if b.get('k') != 'block':
            return b
        top = b['body']
        written = [_writes_of(s) for s in top]
        ren, drop = {}, set()
        consts = {}
        for i, s in enumerate(top):
            if s['k'] != 'decls' or len(s['d']) != 1:
                continue
            v = s['d'][0]
            init = SX.strip(v.get('init')) if SX.is_node(v.get('init')) else None
            if init is not None and v.get('from_param') and init.get('k') in ('bool', 'int', 'float', 'char', 'str') and \
                    v['id'] not in allw and ('arg', v['id']) not in allw and not (v.get('type') or '').rstrip().endswith('&'):
                consts[v['id']] = init      # a literal passed by value to an inlined helper: the parameter is that literal
                drop.add(i)
                continue
            if init is not None and v.get('from_param') and SX.is_this_member(init) and v['id'] not in allw and ('arg', v['id']) not in allw \
                    and not (v.get('type') or '').rstrip().endswith('&') and _member_stable(top[i + 1:], init['name']):
                consts[v['id']] = init      # a member passed by value to an inlined helper, not modified while the copy is in use
                drop.add(i)
                continue
            if not (init is not None and init.get('k') == 'ref' and init.get('kind') in ('var', 'param') and init.get('id')):
                continue
            vt_ = (v.get('type') or '').rstrip()
            if vt_.endswith('&') or not (_base_type(vt_) in SCALARS or vt_.rstrip('const ').rstrip().endswith('*')):
                continue
            if v['id'] in allw or ('arg', v['id']) in allw:
                continue
            src = ren.get(init['id'], init['id'])
            later = set().union(*written[i + 1:]) if written[i + 1:] else set()
            if init['id'] in later or src in later or ('arg', init['id']) in later or ('arg', src) in later:
                continue
            if _base_type(init.get('t')) != _base_type(v.get('type')):
                continue
            ren[v['id']] = src
            drop.add(i)
        if not ren and not consts:
            return b
        total[0] += len(ren) + len(consts)
        nb_ = [_rename_refs(s, ren, NAMES[0]) for i, s in enumerate(top) if i not in drop]
        if consts:
            nb_ = [_clone(s, {}, consts) for s in nb_]
        return dict(b, body=nb_)
    nb = block(body)
    return nb, total[0]


def normalise(prog, f, depth=3, keep=(), only=None):
    """f with helpers inlined, returned records scalarised and trivial copies removed; f itself when nothing applies.
    keep: qualified names of callees whose calls must stay calls (a rule that looks for the call of a guard function)"""
    cache = getattr(prog, '_normalised', None)
    if cache is None:
        cache = prog._normalised = {}
    ck = (id(f), tuple(sorted(keep)), None if only is None else id(only))
    if ck in cache:
        return cache[ck]
    res = f
    if f.body and f.body.get('k') == 'block':
        inl = _Inliner(prog, f, depth, keep, only)
        nb = dict(f.body, body=inl.stmts(f.body['body'], frozenset([f.key]), depth))
        if inl.count:
            if inl.renames:
                # chains (a helper returning what an inner helper returned): follow to the end
                for k_ in list(inl.renames):
                    seen_ = set()
                    while inl.renames[k_] in inl.renames and inl.renames[k_] not in seen_:
                        seen_.add(inl.renames[k_])
                        inl.renames[k_] = inl.renames[inl.renames[k_]]
                _PARAM_IDS[0] = frozenset(p_['id'] for p_ in f.params if p_.get('id'))
                nb = _rename_refs(nb, inl.renames, _names_of(nb, f.params))
            nb, ns = _sroa(prog, nb)
            if ns:
                nb, _nm = _merge_init(nb)
            _PROG[0] = prog
            _PARAMS[0] = f.params
            _PARAM_IDS[0] = frozenset(p_['id'] for p_ in f.params if p_.get('id'))
            nb, nc = _copyprop(nb)
            _PROG[0] = None
            res = copy.copy(f)
            res.body = nb
            res.d = dict(f.d, body=nb)
            res.normalised = {'inlined': inl.count, 'nrvo': len(inl.renames), 'sroa': ns, 'copies': nc}
            res.lambdas = f.lambdas
    cache[ck] = res
    return res


# ---- dispatch tables of member pointers ------------------------------------------------------------------------------------------
def unroll_memptr_tables(prog, f):
    """`for (const auto& row : kTable) { if (name != row.name) continue; …; (obj.*row.fn)(args); return; }` over a constant
    namespace-scope array of records, where the body calls or accesses through a member pointer taken from the row: the loop is
    replaced by one copy of its body per row with the row's constants substituted — `row.name` becomes the string, a test of a
    member pointer is decided (`&C::m` is non-null, `nullptr` is null) and `(obj.*&C::m)(args)` becomes the ordinary call
    `obj.m(args)`.  What remains is the if-chain the table stands for.  Returns the new body, or None when nothing applies."""
    if not f.body:
        return None
    if not any(n.get('k') == 'bin' and n.get('op') in ('.*', '->*') for n in SX.walk(f.body)):
        return None
    done = [0]
    finders = _finders(prog)

    def rows_of(rng):
        rng = SX.strip(rng)
        if not (SX.is_node(rng) and rng.get('k') == 'ref' and rng.get('global')):
            return None
        gls = [gl for (nm, fl, ln), gl in prog.facts.globals.items() if nm == rng['name'] and gl.get('const') and SX.is_node(gl.get('init'))]
        if len(gls) != 1:
            return None
        init = SX.strip(gls[0]['init'])
        if init.get('k') != 'initlist':
            return None
        rows = []
        for r in init.get('items', []):
            r = SX.strip(r)
            if not (SX.is_node(r) and r.get('k') == 'initlist' and r.get('fields') and len(r['fields']) == len(r.get('items', []))):
                return None
            if not all(pure(it) for it in r['items']):
                return None
            rows.append(dict(zip(r['fields'], r['items'])))
        return rows or None

    def subst_row(n, vid, row, bad):
        if isinstance(n, list):
            return [subst_row(x, vid, row, bad) for x in n]
        if not isinstance(n, dict):
            return n
        if n.get('k') == 'member' and SX.is_node(SX.strip(n.get('base'))) and SX.strip(n['base']).get('k') == 'ref' and SX.strip(n['base']).get('id') == vid:
            if n.get('name') in row:
                return copy.deepcopy(row[n['name']])
            bad.append(1)
            return n
        if n.get('k') == 'ref' and n.get('id') == vid:
            bad.append(1)
            return n
        return {k: subst_row(v, vid, row, bad) for k, v in n.items()}

    def memptr_const(e):
        """True / False for a constant member pointer (non-null / null), None otherwise"""
        e = SX.strip(e)
        while SX.is_node(e) and e.get('k') == 'cast':
            e = SX.strip(e['e'])
        if not SX.is_node(e):
            return None
        if e.get('k') == 'nullptr':
            return False
        if e.get('k') == 'un' and e.get('op') == '&' and SX.is_node(SX.strip(e['e'])) and SX.strip(e['e']).get('k') == 'ref' and '::*' in (e.get('t') or ''):
            return True
        if e.get('k') == 'un' and e.get('op') == '!':
            v = memptr_const(e['e'])
            return None if v is None else (not v)
        cp = SX.cmp_parts(e)
        if cp and cp[0] in ('==', '!='):
            a, b = memptr_const(cp[1]), memptr_const(cp[2])
            if a is not None and b is not None and (a is False or b is False):
                return (a == b) == (cp[0] == '==')
        return None

    def fold(n):
        """decide tests of constant member pointers; turn calls through a constant member-function pointer into ordinary calls"""
        if isinstance(n, list):
            out = []
            for x in n:
                y = fold(x)
                if isinstance(y, dict) and y.get('k') == '__splice':
                    out.extend(y['body'])
                else:
                    out.append(y)
            return out
        if not isinstance(n, dict):
            return n
        n = {k: fold(v) if isinstance(v, (dict, list)) else v for k, v in n.items()}
        if n.get('k') == 'if' and not n.get('init') and not n.get('cv'):
            v = memptr_const(n.get('c'))
            if v is not None:
                br = n.get('t') if v else n.get('e')
                return br if br is not None else {'k': 'null', 'ln': n.get('ln')}
        if n.get('k') == 'cond':
            v = memptr_const(n.get('c'))
            if v is not None:
                return n['t'] if v else n['f']
        if n.get('k') == 'call' and not n.get('callee') and SX.is_node(n.get('calleeExpr')):
            ce = SX.strip(n['calleeExpr'])
            if SX.is_node(ce) and ce.get('k') == 'bin' and ce.get('op') in ('.*', '->*'):
                r = SX.strip(ce['r'])
                while SX.is_node(r) and r.get('k') == 'cast':
                    r = SX.strip(r['e'])
                if SX.is_node(r) and r.get('k') == 'un' and r.get('op') == '&' and SX.strip(r['e']).get('k') == 'ref' and SX.strip(r['e']).get('kind') == 'fn':
                    name = SX.strip(r['e'])['name']
                    cands = [t for t in prog.by_name.get(name, []) if len(t.params) == len(n.get('args', []))]
                    m = {'k': 'mcall', 'callee': name, 'obj': ce['l'], 'args': n.get('args', []), 't': n.get('t'), 'ln': n.get('ln'), 'col': n.get('col'),
                         'arrow': ce['op'] == '->*', 'inroot': True, 'ot': ce.get('lt')}
                    if len(cands) == 1:
                        m['sig'] = cands[0].sig
                        if cands[0].d.get('virtual'):
                            m['virtual'] = True
                    return m
        if n.get('k') == 'bin' and n.get('op') in ('.*', '->*'):
            r = SX.strip(n['r'])
            if SX.is_node(r) and r.get('k') == 'un' and r.get('op') == '&' and SX.strip(r['e']).get('k') == 'ref' and SX.strip(r['e']).get('kind') != 'fn':
                # data member through a constant pointer: `v.*&S::major` is `v.major`
                return {'k': 'member', 'base': n['l'], 'name': SX.strip(r['e'])['name'].split('::')[-1], 'arrow': n['op'] == '->*', 't': n.get('t'), 'ln': n.get('ln'),
                        'col': n.get('col'), 'q': SX.strip(r['e']).get('q') or SX.strip(r['e'])['name']}
        return n

    def guard_continue(body):
        """`if (c) continue; REST` at the top level of an iteration → `if (!c) { REST }`; any other continue/break → None"""
        st = body.get('body') if body.get('k') == 'block' else [body]
        out = []
        for i, s in enumerate(st):
            if s.get('k') == 'if' and not s.get('e') and not s.get('init') and not s.get('cv'):
                t = s.get('t')
                if SX.is_node(t) and t.get('k') == 'block' and len(t.get('body', [])) == 1:
                    t = t['body'][0]
                if SX.is_node(t) and t.get('k') == 'continue':
                    rest = guard_continue({'k': 'block', 'body': st[i + 1:], 'ln': s.get('ln')})
                    if rest is None:
                        return None
                    c0 = SX.strip(s['c'])
                    if SX.is_node(c0) and c0.get('k') == 'un' and c0.get('op') == '!':
                        neg = c0['e']
                    else:
                        neg = {'k': 'un', 'op': '!', 'e': s['c'], 't': 'bool', 'postfix': False, 'ln': s.get('ln'), 'col': s.get('col')}
                    out.append({'k': 'if', 'c': neg, 't': {'k': 'block', 'body': rest, 'ln': s.get('ln')}, 'e': None, 'init': None, 'ln': s.get('ln'), 'col': s.get('col')})
                    return out
            if _has_loop_jump(s):
                return None
            out.append(s)
        return out

    def _has_loop_jump(s, inner=False):
        if not isinstance(s, dict):
            return False
        k = s.get('k')
        if k == 'lambda':
            return False
        if k in ('continue', 'break') and not inner:
            return True
        if k in ('for', 'while', 'do', 'forrange', 'switch'):
            # jumps inside a nested loop/switch belong to it (a `continue` inside a switch does not, but tables bodies are small:
            # be conservative)
            if k == 'switch':
                return any(x.get('k') == 'continue' for x in SX.walk(s, into_lambdas=False))
            return False
        for v in s.values():
            if isinstance(v, dict) and _has_loop_jump(v, inner):
                return True
            if isinstance(v, list) and any(_has_loop_jump(x, inner) for x in v):
                return True
        return False

    def rw(n):
        if isinstance(n, list):
            out = []
            for x in n:
                y = rw(x)
                if isinstance(y, dict) and y.get('k') == '__splice':
                    out.extend(y['body'])
                else:
                    out.append(y)
            return out
        if not isinstance(n, dict) or n.get('k') == 'lambda':
            return n
        n2 = {k: rw(v) if isinstance(v, (dict, list)) else v for k, v in n.items()}
        for k_, v_ in list(n2.items()):
            if isinstance(v_, dict) and v_.get('k') == '__splice':
                n2[k_] = {'k': 'block', 'body': v_['body'], 'ln': v_.get('ln')}
        if n2.get('k') != 'forrange':
            return n2
        vid = n2['var'].get('id')
        uses = [x for x in SX.walk(n2['body']) if x.get('k') == 'bin' and x.get('op') in ('.*', '->*')
                and any(y.get('k') == 'ref' and y.get('id') == vid for y in SX.walk(x['r']))]
        if not uses:
            return n2
        rows = rows_of(n2['range'])
        if rows is None or len(rows) > 64:
            return n2
        body = guard_continue(n2['body'] if n2['body'].get('k') == 'block' else {'k': 'block', 'body': [n2['body']], 'ln': n2.get('ln')})
        if body is None:
            return n2
        out = []
        for i, row in enumerate(rows):
            bad = []
            tag = '@r%d' % i
            idmap = {x['id']: x['id'] + tag for x in SX.walk(body) if x.get('k') == 'var' and x.get('id')}
            cl = fold(subst_row(_clone(body, idmap, {}), vid, row, bad))
            if bad:
                return n2
            out.append({'k': 'block', 'body': cl, 'ln': n2.get('ln'), 'col': n2.get('col'), 'row': i})
        done[0] += 1
        return {'k': '__splice', 'body': out, 'ln': n2.get('ln')}

    def null_const(e, gid, isnull):
        """truth value of a test of the row pointer g, once g is known to be null / a row"""
        e = SX.strip(e)
        while SX.is_node(e) and e.get('k') == 'cast':
            e = SX.strip(e['e'])
        if not SX.is_node(e):
            return None
        if e.get('k') == 'ref' and e.get('id') == gid:
            return not isnull
        if e.get('k') == 'un' and e.get('op') == '!':
            v = null_const(e['e'], gid, isnull)
            return None if v is None else (not v)
        cp = SX.cmp_parts(e)
        if cp and cp[0] in ('==', '!='):
            for a, b in ((cp[1], cp[2]), (cp[2], cp[1])):
                a, b = SX.strip(a), SX.strip(b)
                if SX.is_node(a) and a.get('k') == 'ref' and a.get('id') == gid and SX.is_node(b) and b.get('k') == 'nullptr':
                    return isnull == (cp[0] == '==')
        return None

    def fold_g(n, gid, isnull, row, bad):
        """REST with the row pointer g resolved: g->field → the row's constant, tests of g decided, dead tails dropped"""
        if isinstance(n, list):
            out = []
            for x in n:
                y = fold_g(x, gid, isnull, row, bad)
                if isinstance(y, dict) and y.get('k') == 'null':
                    continue
                out.append(y)
                if isinstance(y, dict) and (y.get('k') in ('return', 'ireturn', 'continue', 'break') or
                                            (y.get('k') == 'expr' and SX.is_node(SX.strip(y.get('e'))) and SX.strip(y['e']).get('k') == 'throw')):
                    break            # what follows an unconditional jump is dead
            return out
        if not isinstance(n, dict):
            return n
        if n.get('k') == 'lambda':
            if any(x.get('k') == 'ref' and x.get('id') == gid for x in SX.walk(n)):
                bad.append('captured')
            return n
        if n.get('k') == 'if' and not n.get('init') and not n.get('cv'):
            v = null_const(n.get('c'), gid, isnull)
            if v is not None:
                br = n.get('t') if v else n.get('e')
                return fold_g(br, gid, isnull, row, bad) if br is not None else {'k': 'null', 'ln': n.get('ln')}
        if n.get('k') == 'member' and SX.is_node(SX.strip(n.get('base'))) and SX.strip(n['base']).get('k') == 'ref' and SX.strip(n['base']).get('id') == gid:
            if isnull:
                bad.append('deref of null')
                return n
            if n.get('name') in row:
                return copy.deepcopy(row[n['name']])
            bad.append('field')
            return n
        if n.get('k') == 'ref' and n.get('id') == gid:
            bad.append('escapes')
            return n
        out = {k: fold_g(v, gid, isnull, row, bad) if isinstance(v, (dict, list)) else v for k, v in n.items()}
        if out.get('k') == 'block' and isinstance(out.get('body'), list) and len(out['body']) == 1 and isinstance(out['body'][0], dict) and out['body'][0].get('k') == 'block':
            return out['body'][0]
        return out

    def split(n):
        """`const Row* g = find(x); REST` → `if (c₁) { REST[g := row₁] } else if … else { REST[g := null] }`"""
        if isinstance(n, list):
            lst = [split(x) for x in n]
            for i, s_ in enumerate(lst):
                if not (isinstance(s_, dict) and s_.get('k') == 'decls' and len(s_['d']) == 1):
                    continue
                v = s_['d'][0]
                init = SX.strip(v.get('init')) if SX.is_node(v.get('init')) else None
                if not (SX.is_node(init) and init.get('k') == 'call' and init.get('callee') in finders and (v.get('type') or '').rstrip().endswith('*')):
                    continue
                F, rows, vid, cond = finders[init['callee']]
                args = _all_args(init)
                if len(args) != len(F.params) or not all(pure(a) for a in args):
                    continue
                gid = v['id']
                rest = lst[i + 1:]
                restb = {'k': 'block', 'body': rest}
                if any(SX.write_target(x) and SX.is_node(SX.strip(SX.write_target(x)[0])) and SX.strip(SX.write_target(x)[0]).get('id') == gid for x in SX.walk(restb)):
                    continue
                if not any(x.get('k') == 'bin' and x.get('op') in ('.*', '->*') and any(y.get('k') == 'ref' and y.get('id') == gid for y in SX.walk(x['r'])) for x in SX.walk(restb)):
                    continue
                sub = {p_['id']: a for p_, a in zip(F.params, args) if p_.get('id')}
                chain = None
                bad = []
                branches = []
                for ri, row in enumerate(rows):
                    tag = '@r%d' % ri
                    idmap = {x['id']: x['id'] + tag for x in SX.walk(restb) if x.get('k') == 'var' and x.get('id')}
                    c_i = subst_row(_clone(cond, {}, sub), vid, row, bad)
                    body_i = fold(fold_g(_clone(rest, idmap, {}), gid, False, row, bad))
                    branches.append((c_i, body_i))
                idmap = {x['id']: x['id'] + '@r_' for x in SX.walk(restb) if x.get('k') == 'var' and x.get('id')}
                tail = fold_g(_clone(rest, idmap, {}), gid, True, {}, bad)
                if bad:
                    if os.environ.get('BLOCHSA_DEBUG'):
                        print('split rejected:', bad[:5], file=sys.stderr)
                    continue
                chain = {'k': 'block', 'body': tail, 'ln': s_.get('ln')} if tail else None
                for c_i, body_i in reversed(branches):
                    chain = {'k': 'if', 'c': c_i, 't': {'k': 'block', 'body': body_i, 'ln': s_.get('ln')}, 'e': chain, 'init': None, 'ln': s_.get('ln'), 'col': s_.get('col')}
                done[0] += 1
                return lst[:i] + [chain]
            return lst
        if not isinstance(n, dict) or n.get('k') == 'lambda':
            return n
        return {k: split(v) if isinstance(v, (dict, list)) else v for k, v in n.items()}

    nb = rw(f.body)
    if finders:
        nb2 = split(nb)
        if done[0]:
            nb = nb2
    if not done[0]:
        return None
    if isinstance(nb, dict) and nb.get('k') == '__splice':
        nb = {'k': 'block', 'body': nb['body'], 'ln': f.body.get('ln')}
    return nb


def _finders(prog):
    """row-finder functions: `for (const auto& row : kTable) if (COND) return &row;  return nullptr;` over a constant table whose
    rows hold member pointers → {function name: (function, rows, loop variable id, COND)}"""
    c = getattr(prog, '_memptr_finders', None)
    if c is not None:
        return c
    out = {}
    for F in prog.functions:
        if F.kind != 'function' or not F.body or not (F.ret or '').rstrip().endswith('*'):
            continue
        st = F.body.get('body') if F.body.get('k') == 'block' else None
        if not st or len(st) != 2 or st[0].get('k') != 'forrange' or st[1].get('k') != 'return' or SX.strip(st[1].get('e') or {}).get('k') != 'nullptr':
            continue
        lp = st[0]
        rng = SX.strip(lp['range'])
        if not (SX.is_node(rng) and rng.get('k') == 'ref' and rng.get('global')):
            continue
        gls = [gl for (nm, fl, ln), gl in prog.facts.globals.items() if nm == rng['name'] and gl.get('const') and SX.is_node(gl.get('init'))]
        if len(gls) != 1 or SX.strip(gls[0]['init']).get('k') != 'initlist':
            continue
        rows = []
        okr = True
        for r in SX.strip(gls[0]['init']).get('items', []):
            r = SX.strip(r)
            if not (SX.is_node(r) and r.get('k') == 'initlist' and r.get('fields') and len(r['fields']) == len(r.get('items', [])) and all(pure(it) for it in r['items'])):
                okr = False
                break
            rows.append(dict(zip(r['fields'], r['items'])))
        if not okr or not rows or len(rows) > 64:
            continue
        if not any(SX.is_node(SX.strip(it)) and SX.strip(it).get('k') == 'un' and '::*' in (SX.strip(it).get('t') or '') for row in rows for it in row.values()):
            continue        # only tables that hold member pointers
        b = lp['body']
        if b.get('k') == 'block' and len(b.get('body', [])) == 1:
            b = b['body'][0]
        if b.get('k') != 'if' or b.get('e') or b.get('init') or b.get('cv'):
            continue
        t = b['t']
        if t.get('k') == 'block' and len(t.get('body', [])) == 1:
            t = t['body'][0]
        rv = SX.strip(t.get('e')) if t.get('k') == 'return' and SX.is_node(t.get('e')) else None
        vid = lp['var'].get('id')
        if not (SX.is_node(rv) and rv.get('k') == 'un' and rv.get('op') == '&' and SX.strip(rv['e']).get('k') == 'ref' and SX.strip(rv['e']).get('id') == vid):
            continue
        if not pure(b['c']):
            continue
        out[F.name] = (F, rows, vid, b['c'])
    prog._memptr_finders = out
    return out


# ---- pure local closures are expressions -------------------------------------------------------------------------------------------
def beta_pure_closures(prog, f):
    """`auto parentOf = [this](const C* c) -> const C* { return c->base.empty() ? nullptr : findClass(c->base); };  …  cur = parentOf(cur)`
    — a local closure that is never reassigned, whose body is one `return <expression>` and that captures nothing by value
    (only `this` and/or variables by reference) denotes that expression: its calls with side-effect-free arguments are replaced by
    the expression (parameters substituted).  Returns the new body, or None when nothing applies."""
    if not f.body:
        return None
    written = set()
    for n in SX.walk(f.body):
        w = SX.write_target(n)
        if w and SX.is_node(SX.strip(w[0])) and SX.strip(w[0]).get('k') == 'ref':
            written.add(SX.strip(w[0]).get('id'))
    clos = {}
    for v in SX.walk(f.body):
        if v['k'] == 'var' and v.get('id') not in written and SX.is_node(v.get('init')) and SX.strip(v['init']).get('k') == 'lambda':
            lam = SX.strip(v['init'])
            body = lam.get('body')
            st = body.get('body') if SX.is_node(body) and body.get('k') == 'block' else None
            if not (st and len(st) == 1 and st[0]['k'] == 'return' and SX.is_node(st[0].get('e'))):
                continue
            if any(not c.get('byref') and c.get('name') != 'this' for c in lam.get('captures', [])) or lam.get('defcap') == 1:
                continue        # a by-value capture freezes a value at creation time
            if any(x.get('k') == 'lambda' for x in SX.walk(st[0]['e'])) or not pure(st[0]['e']):
                continue
            # parameters are used as values only
            clos[v['id']] = lam
    if not clos:
        return None
    done = [0]

    def rw(n):
        if isinstance(n, list):
            return [rw(x) for x in n]
        if not isinstance(n, dict):
            return n
        n2 = {k: rw(v) if isinstance(v, (dict, list)) else v for k, v in n.items()}
        if n2.get('k') == 'opcall' and n2.get('op') == '()' and n2.get('args'):
            c = SX.strip(n2['args'][0])
            if SX.is_node(c) and c.get('k') == 'ref' and c.get('id') in clos:
                lam = clos[c['id']]
                args = n2['args'][1:]
                if len(lam.get('params', [])) == len(args) and all(pure(a) for a in args):
                    sub = {p_['id']: a for p_, a in zip(lam['params'], args)}
                    done[0] += 1
                    return _clone(lam['body']['body'][0]['e'], {}, sub)
        return n2
    nb = rw(f.body)
    return nb if done[0] else None


def beta_pure_functions(prog, f, news):
    """`static bool qubitIndexWithin(int index, size_t size) { return index >= 0 && index < static_cast<int>(size); }` — a *new* free
    function (see Program._inline_new_functions) whose body is one `return <pure expression>` over its value parameters denotes that
    expression: its calls with side-effect-free arguments are replaced by it, in any expression position (a range predicate hoisted
    out of six functions reads as the test it stands for).  Returns the new body, or None when nothing applies."""
    if not f.body:
        return None
    cands = {}
    for h in news:
        if h.kind != 'function' or h.cls or not h.body or h is f:
            continue
        st = h.body.get('body') if SX.is_node(h.body) and h.body.get('k') == 'block' else None
        if not (st and len(st) == 1 and st[0]['k'] == 'return' and SX.is_node(st[0].get('e'))):
            continue
        e = st[0]['e']
        if any(x.get('k') == 'lambda' for x in SX.walk(e)) or not pure(e):
            continue
        if any(x.get('k') in ('call', 'mcall') and x.get('callee') == h.name for x in SX.walk(e)):
            continue
        if any((p_.get('type') or '').rstrip().endswith('&') and not (p_.get('type') or '').startswith('const') for p_ in h.params):
            continue
        cands[h.key] = h
        cands.setdefault(h.name, h)
    if not cands:
        return None
    done = [0]

    def rw(n):
        if isinstance(n, list):
            return [rw(x) for x in n]
        if not isinstance(n, dict):
            return n
        n2 = {k: rw(v) if isinstance(v, (dict, list)) else v for k, v in n.items()}
        if n2.get('k') == 'call' and n2.get('callee'):
            h = cands.get(n2['callee'] + n2.get('sig', '')) or (cands.get(n2['callee']) if len([1 for k_ in cands if k_.startswith(n2['callee'] + '(')]) <= 1 else None)
            if h is not None:
                args = SX.real_args(n2)
                if len(h.params) == len(args) and all(pure(a) for a in args):
                    sub = {p_['id']: a for p_, a in zip(h.params, args)}
                    done[0] += 1
                    return _clone(h.body['body'][0]['e'], {}, sub)
        return n2
    nb = rw(f.body)
    return nb if done[0] else None
