"""Role-based anchor resolution: the program entities the rules talk about are found by what they
*are* (types, effects), with today's names only as a cross-check — so a pure rename keeps the rules
armed, and a vanished anchor is reported as analysis-broken (exit 2), never as pass or violation."""
from . import sx as SX
from .facts import AnalysisBroken


class Roles:
    def __init__(self, prog):
        self.p = prog
        self._c = {}

    def _memo(self, k, f):
        if k not in self._c:
            self._c[k] = f()
        return self._c[k]

    # ---- simulator --------------------------------------------------------------------------
    @property
    def sim(self):
        def find():
            c = [r for r in self.p.facts.records.values()
                 if any('std::complex<double>' in f['type'] and 'vector' in f['type'] and not f['static'] for f in r['fields'])]
            if len(c) != 1:
                raise AnalysisBroken('simulator record (owner of the amplitude vector) not found uniquely: %d' % len(c))
            return c[0]
        return self._memo('sim', find)

    @property
    def amp_field(self):
        return [f['name'] for f in self.sim['fields'] if 'std::complex<double>' in f['type'] and 'vector' in f['type']][0]

    def _pick(self, cands, by_effect, name_hint, what):
        """unique candidate by type; if a maintainer added a sibling field of the same type, decide by effect (how the
        simulator uses it), then by the name hint; never guess between two"""
        if len(cands) == 1:
            return cands[0]
        if len(cands) > 1:
            e = [c for c in cands if by_effect(c)]
            if len(e) == 1:
                return e[0]
            h = [c for c in (e or cands) if name_hint in c.lower()]
            if len(h) == 1:
                return h[0]
        raise AnalysisBroken('simulator %s not found uniquely' % what)

    def _sim_bodies(self):
        return [f for f in self.p.methods_of(self.sim['name']) if f.body]

    @property
    def sim_measured_field(self):
        def find():
            c = [f['name'] for f in self.sim['fields'] if f['type'].startswith('std::vector<bool')]

            def guards_a_throw(name):
                # read under a branch that leads to a throw whose message talks about measurement
                for f in self._sim_bodies():
                    for t in SX.walk(f.body):
                        if t['k'] == 'throw' and 'measured' in SX.show(t).lower():
                            for i_ in SX.walk(f.body):
                                if i_['k'] == 'if' and any(x is t for x in SX.walk(i_.get('t'))) and \
                                        any(x['k'] == 'member' and x['name'] == name for x in SX.walk(i_.get('c'))):
                                    return True
                return False
            return self._pick(c, guards_a_throw, 'measured', 'measured-flag vector')
        return self._memo('sim_measured_field', find)

    @property
    def sim_ops_field(self):
        def find():
            c = [f['name'] for f in self.sim['fields'] if f['type'].startswith('std::vector<std::string')]

            def appended_with_qasm(name):
                return any(n['k'] == 'mcall' and SX.short(n['callee']) in ('emplace_back', 'push_back') and SX.is_this_member(SX.strip(n.get('obj')), name) and 'q[' in SX.show(n)
                           for f in self._sim_bodies() for n in SX.walk(f.body))
            return self._pick(c, appended_with_qasm, 'ops', 'op-log vector')
        return self._memo('sim_ops_field', find)

    @property
    def sim_count_field(self):
        def find():
            c = [f['name'] for f in self.sim['fields'] if f['type'] == 'int']

            def sizes_the_register(name):
                return any(n['k'] == 'member' and n['name'] == name for f in self._sim_bodies() if f.short == 'getQasm' for n in SX.walk(f.body))
            return self._pick(c, sizes_the_register, 'qubit', 'qubit-count field')
        return self._memo('sim_count_field', find)

    @property
    def sim_log_flag(self):
        def find():
            c = [f['name'] for f in self.sim['fields'] if f['type'] == 'bool']
            try:
                ops = self.sim_ops_field
            except AnalysisBroken:
                ops = None

            def guards_logging(name):
                for f in self._sim_bodies():
                    for i_ in SX.walk(f.body):
                        if i_['k'] == 'if' and any(x['k'] == 'member' and x['name'] == name for x in SX.walk(i_.get('c'))) and \
                                any(x['k'] == 'mcall' and ops and SX.is_this_member(SX.strip(x.get('obj')), ops) for x in SX.walk(i_.get('t'))):
                            return True
                return False
            return self._pick(c, guards_logging, 'log', 'log switch')
        return self._memo('sim_log_flag', find)

    def sim_methods(self):
        return [f for f in self.p.methods_of(self.sim['name']) if f.kind == 'method']

    def sim_method(self, short):
        c = [f for f in self.sim_methods() if f.short == short]
        if len(c) != 1:
            raise AnalysisBroken('simulator method %s not found' % short)
        return c[0]

    def _writes_amp(self, f, depth=3):
        """f (or a simulator method it calls, depth-bounded) assigns into / swaps the amplitude vector."""
        amp = self.amp_field
        seen = set()

        def go(g, d):
            if id(g) in seen:
                return False
            seen.add(id(g))
            for n in SX.walk(g.body, into_lambdas=True):
                w = SX.write_target(n)
                if w:
                    root, names = SX.member_chain(w[0])
                    if amp in names[:1] and SX.is_node(root) and root['k'] == 'this':
                        return True
                if n['k'] == 'call' and SX.short(n.get('callee', '')) == 'swap':
                    for a in n['args']:
                        root, names = SX.member_chain(a)
                        if amp in names[:1]:
                            return True
                if n['k'] == 'mcall' and SX.short(n['callee']) == 'swap':
                    root, names = SX.member_chain(n['obj'])
                    if amp in names[:1]:
                        return True
            if d > 0:
                for n, fs in self.p.callees(g):
                    for t in fs:
                        if t.cls == self.sim['name'] and go(t, d - 1):
                            return True
            return False
        return go(f, depth)

    def sim_public(self):
        pub = {m['name'] for m in self.sim['methods'] if m['access'] == 0}   # AS_public == 0
        return [f for f in self.sim_methods() if f.short in pub]

    def builtin_gate_names(self):
        """keys of the evaluator's built-in gate table (the language-level gate names)"""
        def find():
            names = set()
            for (nm, fl, ln), gl in self.p.facts.globals.items():
                if nm.endswith('builtInGates') and SX.is_node(gl.get('init')):
                    for n in SX.walk(gl['init']):
                        if n['k'] in ('initlist', 'construct') and 'BuiltInGate' in n.get('type', ''):
                            items = n.get('items') or n.get('args') or []
                            for x in SX.walk(items[0]) if items and SX.is_node(items[0]) else []:
                                if x['k'] == 'str':
                                    names.add(x['v'])
                                    break
            return names
        return self._memo('builtin_gate_names', find)

    def sim_classify(self):
        """{'allocate': f, 'measure': f, 'reset': f, 'gates': [f...], 'qasm': f}
        Roles are resolved by effect (who writes amplitudes, who clears the flag); a public method that carries the name of a
        built-in gate is a gate even if it no longer touches the state, and the one remaining single-qubit state writer is the
        reset even if it no longer clears the flag — the property checks then report the missing effect instead of the role
        resolution giving up."""
        def find():
            out = {'gates': []}
            mf = self.sim_measured_field
            gate_names = self.builtin_gate_names()
            late = []
            for f in self.sim_public():
                ptypes = [p['type'] for p in f.params]
                if f.ret == 'int' and not ptypes:
                    out['allocate'] = f
                elif f.ret == 'int' and ptypes == ['int']:
                    out['measure'] = f
                elif f.ret == 'void' and ptypes and ptypes[0] == 'int' and f.short in gate_names and not self._writes_amp(f):
                    out['gates'].append(f)
                    out.setdefault('inert_gates', []).append(f)
                elif f.ret == 'void' and ptypes and ptypes[0] == 'int' and self._writes_amp(f):
                    clears = False
                    for n in SX.walk(f.body):
                        w = SX.write_target(n)
                        if w and SX.is_node(w[1]) and w[1]['k'] == 'bool' and not w[1]['v']:
                            root, names = SX.member_chain(w[0])
                            if mf in names[:1]:
                                clears = True
                    single = len(ptypes) == 1 or (ptypes[0] == 'int' and all(t_ == 'bool' for t_ in ptypes[1:]))      # one qubit operand (+ option flags)
                    if clears and single:
                        out['reset'] = f
                    elif single and gate_names and f.short not in gate_names:
                        late.append(f)      # a single-qubit state writer that is no gate: the reset, minus its flag write
                    else:
                        out['gates'].append(f)
                elif f.ret == 'std::string' and not ptypes:
                    out['qasm'] = f
            if 'reset' not in out and len(late) == 1:
                out['reset'] = late[0]
            elif late:
                out['gates'].extend(x for x in late if x is not out.get('reset'))
            for k in ('allocate', 'measure', 'reset', 'qasm'):
                if k not in out:
                    raise AnalysisBroken('simulator role %s not resolved' % k)
            names = sorted(g.short for g in out['gates'])
            if len(names) < 8:
                raise AnalysisBroken('simulator gate set shrank: %s' % names)
            return out
        return self._memo('simcls', find)

    def sim_ensure(self):
        """Simulator-side guard: const method that throws under a read of the measured vector."""
        def find():
            mf = self.sim_measured_field
            c = []
            for f in self.sim_methods():
                g = self.p.cfg(f)
                for n in g.nodes:
                    if n.kind == 'throw':
                        for ce, pol, _ in g.guards(n):
                            if any(x['k'] == 'member' and x['name'] == mf for x in SX.walk(ce)):
                                c.append(f)
                                break
            c = list({id(f): f for f in c}.values())
            if len(c) != 1:
                # syntactic fallback: the method with an `if` over the measured vector whose branch throws (a disjunctive or
                # otherwise weakened condition is not a dominating guard any more, but it is still this function's test —
                # the property checks then judge the condition)
                c = []
                for f in self.sim_methods():
                    if not f.body:
                        continue
                    for i_ in SX.walk(f.body, into_lambdas=False):
                        if i_['k'] == 'if' and any(x['k'] == 'member' and x['name'] == mf for x in SX.walk(i_.get('c'))) and \
                                any(x['k'] == 'throw' for x in SX.walk(i_.get('t'))):
                            c.append(f)
                            break
                c = list({id(f): f for f in c}.values())
            if len(c) != 1:
                raise AnalysisBroken('simulator ensure-active function not resolved (%d)' % len(c))
            return c[0]
        return self._memo('simensure', find)

    # ---- evaluator --------------------------------------------------------------------------
    @property
    def ev(self):
        def find():
            sn = self.sim['name']
            c = [r for r in self.p.facts.records.values() if any(f['type'] == sn for f in r['fields'])]
            if len(c) != 1:
                raise AnalysisBroken('evaluator record (owner of the simulator) not found uniquely: %d' % len(c))
            return c[0]
        return self._memo('ev', find)

    @property
    def ev_sim_field(self):
        return [f['name'] for f in self.ev['fields'] if f['type'] == self.sim['name']][0]

    def ev_methods(self):
        return [f for f in self.p.methods_of(self.ev['name'])]

    def ev_method(self, short, sig=None):
        c = [f for f in self.ev_methods() if f.short == short and (sig is None or sig in f.sig)]
        if len(c) != 1:
            raise AnalysisBroken('evaluator method %s not found uniquely (%d)' % (short, len(c)))
        return c[0]

    @property
    def qinfo(self):
        """(record, flag field name, evaluator vector field name) of the per-qubit bookkeeping record."""
        def find():
            for f in self.ev['fields']:
                t = f['type']
                if t.startswith('std::vector<') and '::' in t:
                    inner = t[len('std::vector<'):].split(',')[0].rstrip('>')
                    r = self.p.facts.records.get(inner)
                    if r and inner.startswith(self.ev['name'] + '::'):
                        bools = [x['name'] for x in r['fields'] if x['type'] == 'bool']
                        strs = [x['name'] for x in r['fields'] if x['type'] == 'std::string']
                        if len(bools) == 1 and strs:
                            return (r, bools[0], f['name'])
            raise AnalysisBroken('per-qubit bookkeeping record (name + measured flag) not found')
        return self._memo('qinfo', find)

    def is_sim_call(self, n, names=None):
        """n is a member call on the evaluator's simulator object (resolved by the receiver's type)."""
        if not (SX.is_node(n) and n['k'] == 'mcall'):
            return False
        if not n['callee'].startswith(self.sim['name'] + '::'):
            return False
        return names is None or SX.short(n['callee']) in names

    def flag_writers(self):
        """Evaluator functions that write the per-qubit measured flag: {fn: set(values 'true'/'false'/'other')}"""
        def find():
            rec, flag, vec = self.qinfo
            out = {}
            for f in self.ev_methods():
                for n in SX.walk(f.body):
                    if n['k'] in ('assign', 'cassign') and SX.is_node(n['l']) and n['l']['k'] == 'member' and n['l']['name'] == flag \
                            and n['l'].get('q', '').startswith(rec['name']):
                        v = n['r']
                        val = ('true' if v['v'] else 'false') if SX.is_node(v) and v['k'] == 'bool' else 'other'
                        out.setdefault(f.key, (f, []))[1].append((val, n))
            return out
        return self._memo('flagw', find)

    def ev_ensure_active(self):
        """Evaluator functions that throw under a read of QubitInfo::measured."""
        def find():
            rec, flag, vec = self.qinfo
            c = []
            for f in self.ev_methods():
                if not f.body:
                    continue
                if not any(n['k'] == 'member' and n['name'] == flag for n in SX.walk(f.body)):
                    continue
                g = self.p.cfg(f)
                for n in g.nodes:
                    if n.kind == 'throw':
                        if any(any(x['k'] == 'member' and x['name'] == flag for x in SX.walk(ce)) for ce, pol, _ in g.guards(n)):
                            c.append(f)
                            break
            if not c:
                raise AnalysisBroken('evaluator ensure-active function not resolved')
            return c
        return self._memo('evensure', find)
