"""Obligation bookkeeping, known findings, evidence and exit codes for one property check."""
import json
import os
import re
import time

from .facts import VERIF, AnalysisBroken

KNOWN = os.path.join(VERIF, 'known_findings.txt')
EVID = os.environ.get('BLOCHSA_EVIDENCE_DIR') or os.path.join(VERIF, 'evidence')
VIOL = os.path.join(EVID, 'violations')


def load_known():
    """known_findings.txt lines:
         finding: property=<id> rule=<rule> fn=<function> key=<instance key> :: <what fails>
         fixed: property=<id> <commit> <what failed>          (suppresses nothing)
    """
    out = []
    if not os.path.exists(KNOWN):
        return out
    for line in open(KNOWN):
        line = line.strip()
        if not line or line.startswith('#') or line.startswith('fixed:'):
            continue
        m = re.match(r'finding:\s+property=(\S+)\s+rule=(\S+)\s+fn=(\S+)\s+key=(.*?)\s+::\s+(.*)$', line)
        if m:
            out.append({'property': m.group(1), 'rule': m.group(2), 'fn': m.group(3), 'key': m.group(4).strip(), 'what': m.group(5)})
    return out


class Check:
    def __init__(self, pid, tier='quick', seed=0):
        self.pid = pid
        self.tier = tier
        self.seed = seed
        self.t0 = time.time()
        self.obligations = []     # dicts
        self.failures = []
        self.counts = {}
        self.notes = []
        self.rules = {}           # rule id -> description
        self.trusted = ['clang 14 front end (libTooling) as the parser/type resolver', '/verif/sa/extract/bx.cc (sx extractor)',
                        '/verif/sa/blochsa (CFG builder, kernels, rule tables)']
        self.assumptions = []
        self.extra = {}
        self.tus = 0
        self.functions_analysed = set()
        self.vacuous = []

    # ---- recording --------------------------------------------------------------------------
    def rule(self, rid, text):
        self.rules[rid] = text

    def ob(self, rule, fn, site, ok, detail='', key=None, nontrivial=True, path=None):
        """One obligation. fn: Function or name; site: 'file:line' or line; key: stable instance key
        (never a line number) used for known-finding matching."""
        fname = getattr(fn, 'name', fn) or '-'
        floc = site if isinstance(site, str) else ('%s:%s' % (getattr(fn, 'rel', '?'), site))
        o = {'rule': rule, 'fn': _short(fname), 'site': floc, 'ok': bool(ok), 'detail': detail,
             'key': key if key is not None else '-', 'nontrivial': bool(nontrivial)}
        if path:
            o['path'] = path
        self.obligations.append(o)
        if hasattr(fn, 'name'):
            self.functions_analysed.add(fn.name)
        if not ok:
            self.failures.append(o)
        return ok

    def count(self, what, n, minimum=None):
        self.counts[what] = n
        if minimum is not None and n < minimum:
            # decided at the end: when the same run also reports concrete violations, those are the verdict (the shrinkage is
            # their consequence); a shrunken instance set with nothing to report would be a vacuous pass → analysis broken
            self.vacuous.append('%s: found %d instance(s), confirmed minimum is %d — the rule would pass vacuously' % (what, n, minimum))

    def note(self, s):
        self.notes.append(s)

    # ---- finishing --------------------------------------------------------------------------
    def finish(self, explanation, broken=None):
        os.makedirs(VIOL, exist_ok=True)
        known = [k for k in load_known() if k['property'] == self.pid]
        new, kn = [], []
        for f in self.failures:
            hit = None
            for k in known:
                if k['rule'] == f['rule'] and k['fn'] == f['fn'] and k['key'] == f['key']:
                    hit = k
                    break
            (kn if hit else new).append((f, hit))
        if self.vacuous and not new and not broken:
            broken = '; '.join(self.vacuous)
        lines = []
        for f, k in kn:
            lines.append('KNOWN-FINDING: property=%s %s %s key=%s — %s' % (self.pid, f['rule'], f['fn'], f['key'], k['what']))
        for old in os.listdir(VIOL):
            if old.startswith(self.pid + '-'):
                try:
                    os.remove(os.path.join(VIOL, old))
                except OSError:
                    pass
        for i, (f, _) in enumerate(new):
            p = os.path.join(VIOL, '%s-%d.json' % (self.pid, i))
            doc = dict(f)
            doc['property'] = self.pid
            doc['rule_text'] = self.rules.get(f['rule'], '')
            json.dump(doc, open(p, 'w'), indent=1)
            lines.append('VIOLATION property=%s replay=%s' % (self.pid, p))
            lines.append('  %s at %s in %s [%s]: %s' % (f['rule'], f['site'], f['fn'], f['key'], f['detail']))
        total = len(self.obligations)
        ok = sum(1 for o in self.obligations if o['ok'])
        distinct = len({(o['rule'], o['fn'], o['key'], o['site']) for o in self.obligations if o['nontrivial']})
        samples = []
        seen_rules = {}
        for o in self.obligations:
            c = seen_rules.get(o['rule'], 0)
            if c < 3:
                seen_rules[o['rule']] = c + 1
                samples.append({k: o[k] for k in ('rule', 'fn', 'site', 'key', 'ok', 'detail')})
        per_rule = {}
        for o in self.obligations:
            r = per_rule.setdefault(o['rule'], {'obligations': 0, 'discharged': 0})
            r['obligations'] += 1
            r['discharged'] += 1 if o['ok'] else 0
        cov = {
            'explanation': explanation,
            'evaluations': max(total, 0),
            'distinct_nontrivial': distinct,
            'rule': 'one obligation per (rule, resolved program site); non-trivial = needed a path/guard/table argument; '
                    'distinct = distinct (rule, function, instance key, site)',
            'samples': samples[:40] or [{'note': 'no obligations'}],
            'obligations': total,
            'discharged': ok,
            'per_rule': per_rule,
            'rules': self.rules,
            'instance_counts': self.counts,
            'known_findings': [f['rule'] + ' ' + f['fn'] + ' ' + f['key'] for f, _ in kn],
            'new_violations': [f['rule'] + ' ' + f['fn'] + ' ' + f['key'] + ' @' + f['site'] for f, _ in new],
            'translation_units': self.tus,
            'functions_with_obligations': len(self.functions_analysed),
            'trusted_base': self.trusted,
            'exhaustive': broken is None,
            'notes': self.notes + self.vacuous,
        }
        cov.update(self.extra)
        if broken:
            cov['analysis_broken'] = broken
        ev = {'property_id': self.pid, 'tier': self.tier, 'seed': int(self.seed), 'level': 'other', 'coverage': cov,
              'assumptions': self.assumptions, 'wall_s': round(time.time() - self.t0, 3), 'violations': len(new)}
        os.makedirs(EVID, exist_ok=True)
        tmp = os.path.join(EVID, '.%s.json.tmp' % self.pid)
        json.dump(ev, open(tmp, 'w'), indent=1, sort_keys=False)
        os.replace(tmp, os.path.join(EVID, '%s.json' % self.pid))
        out = ['[%s] tier=%s obligations=%d discharged=%d known=%d new=%d rules=%d wall=%.1fs' % (
            self.pid, self.tier, total, ok, len(kn), len(new), len(per_rule), time.time() - self.t0)]
        for r in sorted(per_rule):
            out.append('  %-8s %3d/%-3d %s' % (r, per_rule[r]['discharged'], per_rule[r]['obligations'], self.rules.get(r, '')[:110]))
        out.extend(lines)
        if broken and new:
            out.append('ANALYSIS-INCOMPLETE property=%s: %s (the violations above come from rules that did complete)' % (self.pid, broken))
        elif broken:
            out.append('ANALYSIS-BROKEN property=%s: %s' % (self.pid, broken))
        try:
            import sys
            sys.stdout.write('\n'.join(out) + '\n')
            sys.stdout.flush()
        except BrokenPipeError:
            pass   # the reader went away; the verdict is in the exit status and the evidence file
        if new:
            return 1
        if broken:
            return 2
        return 0


def _short(n):
    return n.replace('bloch::runtime::', '').replace('bloch::compiler::', '').replace('bloch::support::', '') \
        .replace('bloch::update::', '').replace('bloch::cli::', '').replace('bloch::', '')
