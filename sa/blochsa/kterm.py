"""K-SX term algebra: folds straight-line integer/bit arithmetic from sx trees into normalised terms so that
index expressions can be compared with a template up to commutativity/associativity and local definitions.

Terms:  ('int', v) | ('sym', name) | ('op', name, (args…))   with '+', '|', '*' flattened and sorted.
Nothing is evaluated numerically except constant folding of literals."""
from . import sx as SX


class Unfoldable(Exception):
    pass


def I(v):
    return ('int', int(v))


def S(n):
    return ('sym', n)


def op(name, *args):
    args = list(args)
    if name in ('+', '|', '*', '&', '^'):
        flat = []
        for a in args:
            if a[0] == 'op' and a[1] == name:
                flat.extend(a[2])
            else:
                flat.append(a)
        ints = [a[1] for a in flat if a[0] == 'int']
        rest = [a for a in flat if a[0] != 'int']
        if ints:
            if name == '+':
                c = sum(ints)
                if c != 0 or not rest:
                    rest.append(I(c))
            elif name == '*':
                c = 1
                for v in ints:
                    c *= v
                if c == 0:
                    return I(0)
                # distribute a constant factor over a sum so that differences normalise:  -1*(a + k)  →  -a - k
                if len(rest) == 1 and rest[0][0] == 'op' and rest[0][1] == '+':
                    return op('+', *[op('*', I(c), t) for t in rest[0][2]])
                if c != 1 or not rest:
                    rest.append(I(c))
            elif name == '|':
                c = 0
                for v in ints:
                    c |= v
                if c != 0 or not rest:
                    rest.append(I(c))
            else:
                rest.extend(I(v) for v in ints)
        if name == '|':
            # idempotent
            uniq = []
            for a in rest:
                if a not in uniq:
                    uniq.append(a)
            rest = uniq
        if len(rest) == 1:
            return rest[0]
        return ('op', name, tuple(sorted(rest, key=repr)))
    if name == '-' and len(args) == 2:
        a, b = args
        if a[0] == 'int' and b[0] == 'int':
            return I(a[1] - b[1])
        if b == I(0):
            return a
        # a - b  →  a + (-1)*b  normalised through '+'
        return op('+', a, op('*', I(-1), b))
    if name == '<<' and len(args) == 2:
        a, b = args
        if a[0] == 'int' and b[0] == 'int':
            return I(a[1] << b[1])
        if b == I(0):
            return a
        return ('op', '<<', (a, b))
    return ('op', name, tuple(args))


def show(t):
    if t[0] == 'int':
        return str(t[1])
    if t[0] == 'sym':
        return t[1]
    name, args = t[1], t[2]
    if name in ('+', '|', '*', '&', '^', '<<', '-', '<', '>', '==', '>=', '<=', '!='):
        return '(' + (' %s ' % name).join(show(a) for a in args) + ')'
    return '%s(%s)' % (name, ', '.join(show(a) for a in args))


class Folder:
    """Folds expressions of one function given an environment of local definitions (var id → term).
    `facts` resolves min/max/comparisons/conditionals under a case hypothesis: a callable(term) → bool|None."""

    def __init__(self, env=None, facts=None, reads=None):
        self.env = dict(env or {})
        self.facts = facts or (lambda t: None)
        self.reads = reads   # callable(base_show, index_term) for container reads, or None

    def fold(self, e):
        e = SX.strip(e)
        if not SX.is_node(e):
            raise Unfoldable('empty')
        k = e['k']
        if k == 'int':
            return I(e['v'])
        if k == 'bool':
            return I(1 if e['v'] else 0)
        if k == 'ref':
            if e.get('id') in self.env:
                return self.env[e['id']]
            return S(e['name'])
        if k == 'cast':
            return self.fold(e['e'])
        if k == 'initlist' and len(e['items']) == 1:
            return self.fold(e['items'][0])
        if k == 'construct' and len(SX.real_args(e)) == 1:
            return self.fold(SX.real_args(e)[0])
        if k == 'member':
            return S(SX.show(e))
        if k == 'mcall' and SX.short(e['callee']) == 'size':
            return S(SX.show(e))
        if k == 'un' and e['op'] == '-':
            return op('*', I(-1), self.fold(e['e']))
        if k == 'bin':
            o = e['op']
            a, b = self.fold(e['l']), self.fold(e['r'])
            if o in ('<', '>', '<=', '>=', '==', '!='):
                t = ('op', o, (a, b))
                v = self.facts(t)
                if v is not None:
                    return I(1 if v else 0)
                return t
            return op(o, a, b)
        if k == 'cond':
            c = self.fold(e['c'])
            if c == I(1):
                return self.fold(e['t'])
            if c == I(0):
                return self.fold(e['f'])
            return ('op', '?:', (c, self.fold(e['t']), self.fold(e['f'])))
        if k == 'call' and e.get('callee') in ('std::min', 'std::max'):
            a, b = [self.fold(x) for x in SX.real_args(e)]
            lt = self.facts(('op', '<', (a, b)))
            if lt is not None:
                return (a if lt else b) if e['callee'] == 'std::min' else (b if lt else a)
            return ('op', SX.short(e['callee']), (a, b))
        if k == 'index' and self.reads is not None:
            return self.reads(SX.show(e['base']), self.fold(e['i']))
        raise Unfoldable('%s: %s' % (k, SX.show(e)[:50]))
