"""K-ABS: exhaustive evaluation of small extracted functions over a *finite quotient domain*.

The interpreter below walks sx trees (never compiled code).  A rule that uses it first checks, syntactically,
that the analysed functions cannot distinguish more than the quotient does (e.g. version fields are only ever
compared with the corresponding field of the other version), and then enumerates one representative per
abstract state; under that precondition the resulting table is exact for all concrete inputs.  Anything outside
the supported subset raises Unsupported, which the caller turns into exit 2 (never a guess)."""
from . import sx as SX


class Unsupported(Exception):
    pass


class Ret(Exception):
    def __init__(self, v):
        self.v = v


class Obj(dict):
    """struct value"""


class Interp:
    def __init__(self, prog, models=None, max_steps=20000):
        self.p = prog
        self.models = models or {}
        self.effects = []
        self.steps = 0
        self.max_steps = max_steps

    # ---- functions ------------------------------------------------------------------------------
    def call_fn(self, f, args):
        env = {}
        for prm, a in zip(f.params, args):
            env[prm['id']] = a
        try:
            self.stmt(f.body, env)
        except Ret as r:
            return r.v
        return None

    # ---- statements -----------------------------------------------------------------------------
    def stmt(self, s, env):
        if s is None:
            return
        self.steps += 1
        if self.steps > self.max_steps:
            raise Unsupported('step bound exceeded')
        k = s['k']
        if k == 'block':
            for c in s['body']:
                self.stmt(c, env)
        elif k == 'decls':
            for v in s['d']:
                env[v['id']] = self.expr(v['init'], env) if v.get('init') is not None else None
        elif k == 'expr':
            self.expr(s['e'], env)
        elif k == 'if':
            if s.get('init'):
                self.stmt(s['init'], env)
            if s.get('cv'):
                env[s['cv']['id']] = self.expr(s['cv']['init'], env)
                c = env[s['cv']['id']]
            else:
                c = self.expr(s['c'], env)
            if self.truth(c):
                self.stmt(s['t'], env)
            else:
                self.stmt(s.get('e'), env)
        elif k == 'return':
            raise Ret(self.expr(s['e'], env) if s.get('e') is not None else None)
        elif k == 'null':
            pass
        elif k == 'switch':
            v = self.expr(s['c'], env)
            body = s['body']['body'] if s['body']['k'] == 'block' else [s['body']]
            taking = False
            try:
                for c in body:
                    cur = c
                    while cur['k'] in ('case', 'default'):
                        if not taking:
                            if cur['k'] == 'default' or self.expr(cur['v'], env) == v:
                                taking = True
                        cur = cur['s']
                        if cur is None:
                            break
                    if taking and cur is not None:
                        self.stmt(cur, env)
            except _Break:
                pass
        elif k == 'break':
            raise _Break()
        else:
            raise Unsupported('statement ' + k)

    def truth(self, v):
        if isinstance(v, Obj):
            return True
        return bool(v)

    # ---- expressions ----------------------------------------------------------------------------
    def expr(self, e, env):
        if e is None:
            return None
        k = e['k']
        if k in ('int', 'float', 'bool', 'str'):
            return e['v']
        if k == 'char':
            return chr(e['v'])
        if k == 'nullptr':
            return None
        if k == 'defaultarg':
            return self.expr(e['e'], env)
        if k == 'ref':
            if e.get('kind') == 'enum':
                return e['name']
            if e.get('id') in env:
                return env[e['id']]
            m = self.models.get('ref:' + e['name'])
            if m is not None:
                return m(self, e, env)
            raise Unsupported('unbound variable ' + e['name'])
        if k == 'member':
            b = self.expr(e['base'], env)
            if isinstance(b, Obj):
                if e['name'] in b:
                    return b[e['name']]
                raise Unsupported('field ' + e['name'])
            raise Unsupported('member of non-struct: ' + SX.show(e))
        if k == 'cast':
            return self.expr(e['e'], env)
        if k == 'un':
            op = e['op']
            if op == '!':
                return not self.truth(self.expr(e['e'], env))
            if op == '-':
                return -self.expr(e['e'], env)
            if op == '*':
                return self.expr(e['e'], env)
            raise Unsupported('unary ' + op)
        if k == 'bin':
            op = e['op']
            if op == '&&':
                return self.truth(self.expr(e['l'], env)) and self.truth(self.expr(e['r'], env))
            if op == '||':
                return self.truth(self.expr(e['l'], env)) or self.truth(self.expr(e['r'], env))
            a, b = self.expr(e['l'], env), self.expr(e['r'], env)
            return self.binop(op, a, b)
        if k == 'cond':
            return self.expr(e['t'], env) if self.truth(self.expr(e['c'], env)) else self.expr(e['f'], env)
        if k == 'assign':
            v = self.expr(e['r'], env)
            self.store(e['l'], v, env)
            return v
        if k == 'opcall':
            op = e['op']
            key = 'op:' + op + ':' + SX.short_type(e.get('at', ''))
            for cand in (key, 'op:' + op):
                if cand in self.models:
                    return self.models[cand](self, e, env)
            if op in ('==', '!=', '<', '>', '<=', '>=') and len(e['args']) == 2:
                return self.binop(op, self.expr(e['args'][0], env), self.expr(e['args'][1], env))
            if op == '=' and len(e['args']) == 2:
                v = self.expr(e['args'][1], env)
                self.store(e['args'][0], v, env)
                return v
            if op in ('*', '->') and len(e['args']) == 1:
                return self.expr(e['args'][0], env)
            raise Unsupported('operator ' + op + ' on ' + e.get('at', ''))
        if k in ('call', 'mcall'):
            name = SX.short(SX.callee(e))
            if name in self.models:
                return self.models[name](self, e, env)
            fs = [f for f in self.p.resolve(e) if f.body]
            if len(fs) == 1:
                args = [self.expr(a, env) for a in SX.real_args(e)]
                return self.call_fn(fs[0], args)
            raise Unsupported('call ' + SX.callee(e))
        if k == 'construct':
            t = SX.short_type(e['type'])
            if 'ctor:' + t in self.models:
                return self.models['ctor:' + t](self, e, env)
            a = SX.real_args(e)
            if len(a) == 1:
                return self.expr(a[0], env)
            if not a:
                rec = self.p.facts.records.get(e['type'])
                if rec:
                    return self.default_struct(rec, env)
            raise Unsupported('construct ' + e['type'])
        if k == 'initlist':
            rec = self.p.facts.records.get(e['type'])
            if rec and e.get('fields'):
                o = self.default_struct(rec, env)
                for name, it in zip(e['fields'], e['items']):
                    o[name] = self.expr(it, env)
                return o
            if not e['items']:
                if rec:
                    return self.default_struct(rec, env)
                return None
            raise Unsupported('initlist ' + e['type'])
        if k == 'zeroinit':
            return 0
        raise Unsupported('expression ' + k + ': ' + SX.show(e)[:60])

    def default_struct(self, rec, env):
        o = Obj()
        for f in rec['fields']:
            if f['static']:
                continue
            if f.get('init') is not None:
                o[f['name']] = self.expr(f['init'], env)
            else:
                o[f['name']] = 0 if f['type'] in ('int', 'long', 'bool', 'double', 'unsigned long') else None
        return o

    def store(self, l, v, env):
        l = SX.strip(l)
        if l['k'] == 'ref':
            env[l['id']] = v
            return
        if l['k'] == 'member':
            b = self.expr(l['base'], env)
            if isinstance(b, Obj):
                b[l['name']] = v
                self.effects.append(('store', l['name'], v))
                return
        raise Unsupported('store to ' + SX.show(l))

    @staticmethod
    def binop(op, a, b):
        if op == '==':
            return a == b
        if op == '!=':
            return a != b
        if op == '<':
            return a < b
        if op == '>':
            return a > b
        if op == '<=':
            return a <= b
        if op == '>=':
            return a >= b
        if op == '+':
            return a + b
        if op == '-':
            return a - b
        if op == '*':
            return a * b
        raise Unsupported('binary ' + op)


class _Break(Exception):
    pass
