"""K-ABS: exhaustive evaluation of small extracted functions over a *finite quotient domain*.

The interpreter below walks sx trees (never compiled code).  A rule that uses it first checks, syntactically,
that the analysed functions cannot distinguish more than the quotient does (e.g. version fields are only ever
compared with the corresponding field of the other version), and then enumerates one representative per
abstract state; under that precondition the resulting table is exact for all concrete inputs.  Anything outside
the supported subset raises Unsupported, which the caller turns into exit 2 (never a guess)."""
import re
from . import sx as SX


class Unsupported(Exception):
    pass


class OutOfRange(Unsupported):
    """the analysed code subscripts a sequence outside its bounds on this abstract state"""


class _IRet(Exception):
    """`return` of an inlined helper (K-NORM): leaves the enclosing inlineblock"""


class Ret(Exception):
    def __init__(self, v):
        self.v = v


class Thrown(Exception):
    """the analysed code throws on this abstract state (e = the thrown expression)"""
    def __init__(self, e):
        self.e = e


class Ptr:
    """pointer to a scalar lvalue: the lvalue's syntax and the environment it is evaluated in"""
    def __init__(self, e, env):
        self.e, self.env = e, env

    def __deepcopy__(self, memo):
        return self      # copying a pointer does not copy what it points to


class Obj(dict):
    """struct value"""


class DictIt:
    """iterator into an associative container model: (container, key) or end"""
    def __init__(self, d, key=None, end=False):
        self.d, self.key, self.end = d, key, end

    def __eq__(self, o):
        return isinstance(o, DictIt) and self.d is o.d and self.end == o.end and (self.end or self.key == o.key)

    def __ne__(self, o):
        return not self.__eq__(o)

    def __hash__(self):
        return hash((id(self.d), self.key, self.end))


class Interp:
    def __init__(self, prog, models=None, max_steps=20000):
        self.p = prog
        self.models = models or {}
        self.effects = []
        self.steps = 0
        self.max_steps = max_steps

    # ---- functions ------------------------------------------------------------------------------
    def call_fn(self, f, args):
        return self.call_fn_env(f, args, {})

    def call_fn_env(self, f, args, env0):
        env = dict(env0)
        for prm, a in zip(f.params, args):
            env[prm['id']] = a
        self.last_env = env
        rv = None
        try:
            self.stmt(f.body, env)
        except Ret as r:
            rv = r.v
        self.last_env = env       # the finished callee's bindings: out-parameters are copied back by the caller
        return rv

    def _copy_back(self, f, argexprs, cenv, env):
        """non-const reference parameters that the callee assigned as a whole: the caller's lvalue receives the final value"""
        for prm, a in zip(f.params, argexprs):
            t = (prm.get('type') or '').strip()
            if t.endswith('&') and not t.startswith('const') and prm.get('id') in cenv:
                a0 = SX.strip(a)
                if SX.is_node(a0) and a0.get('k') in ('ref', 'member', 'index'):
                    try:
                        cur = self.expr(a0, env)
                    except (Unsupported, OutOfRange):
                        continue
                    if cenv[prm['id']] is not cur:
                        self.store(a0, cenv[prm['id']], env)

    # ---- statements -----------------------------------------------------------------------------
    def stmt(self, s, env):
        if s is None:
            return
        self.steps += 1
        if self.steps > self.max_steps:
            raise Unsupported('step bound exceeded')
        k = s['k']
        if k == 'block':
            for c in s['body']:
                self.stmt(c, env)
        elif k == 'decls':
            for v in s['d']:
                val = self.expr(v['init'], env) if v.get('init') is not None else None
                t = (v.get('type') or '').strip()
                if isinstance(val, (Obj, list)) and t and not t.endswith(('&', '*')) and not t.startswith(('std::shared_ptr', 'std::unique_ptr', 'std::weak_ptr')) \
                        and not t.startswith('const std::shared_ptr'):
                    # copy-initialisation of a value type: the new object is independent of its source
                    import copy as _copy
                    val = _copy.deepcopy(val)
                env[v['id']] = val
        elif k == 'expr':
            self.expr(s['e'], env)
        elif k == 'if':
            if s.get('init'):
                self.stmt(s['init'], env)
            if s.get('cv'):
                env[s['cv']['id']] = self.expr(s['cv']['init'], env)
                c = env[s['cv']['id']]
            else:
                c = self.expr(s['c'], env)
            if self.truth(c):
                self.stmt(s['t'], env)
            else:
                self.stmt(s.get('e'), env)
        elif k == 'return':
            raise Ret(self.expr(s['e'], env) if s.get('e') is not None else None)
        elif k == 'inlineblock':
            try:
                self.stmt(s['body'], env)
            except _IRet:
                pass
        elif k == 'ireturn':
            raise _IRet()
        elif k == 'null':
            pass
        elif k == 'switch':
            v = self.expr(s['c'], env)
            body = s['body']['body'] if s['body']['k'] == 'block' else [s['body']]
            taking = False
            try:
                for c in body:
                    cur = c
                    while cur['k'] in ('case', 'default'):
                        if not taking:
                            if cur['k'] == 'default' or self.expr(cur['v'], env) == v:
                                taking = True
                        cur = cur['s']
                        if cur is None:
                            break
                    if taking and cur is not None:
                        self.stmt(cur, env)
            except _Break:
                pass
        elif k == 'try':
            # a thrown C++ exception (raised by a model such as std::stoi, or by a `throw` in the analysed code) is taken by the
            # first handler; which handler matches is not modelled (the callers only use it where there is one handler)
            try:
                self.stmt(s['body'], env)
            except Thrown:
                hs = s.get('handlers') or []
                if len(hs) != 1:
                    raise Unsupported('try with %d handlers' % len(hs))
                self.stmt(hs[0]['body'], env)
        elif k == 'break':
            raise _Break()
        elif k == 'continue':
            raise _Continue()
        elif k == 'forrange':
            seq = self.expr(s['range'], env)
            items = self.iterate(seq)
            v = s['var']
            try:
                for it in items:
                    env[v['id']] = it
                    for b, val in zip(v.get('bindings', []), self.unpack(it, len(v.get('bindings', [])))):
                        env[b['id']] = val
                    try:
                        self.stmt(s['body'], env)
                    except _Continue:
                        pass
            except _Break:
                pass
        elif k == 'while':
            n = 0
            try:
                while True:
                    if s.get('cv'):
                        env[s['cv']['id']] = self.expr(s['cv']['init'], env)
                        c = env[s['cv']['id']]
                    else:
                        c = self.expr(s['c'], env)
                    if not self.truth(c):
                        break
                    n += 1
                    if n > 64:
                        raise Unsupported('loop bound exceeded')
                    try:
                        self.stmt(s['body'], env)
                    except _Continue:
                        pass
            except _Break:
                pass
        elif k == 'for':
            self.stmt(s.get('init'), env)
            n = 0
            try:
                while s.get('c') is None or self.truth(self.expr(s['c'], env)):
                    n += 1
                    if n > 64:
                        raise Unsupported('loop bound exceeded')
                    try:
                        self.stmt(s['body'], env)
                    except _Continue:
                        pass
                    if s.get('inc') is not None:
                        self.expr(s['inc'], env)
            except _Break:
                pass
        else:
            raise Unsupported('statement ' + k)

    def iterate(self, seq):
        if isinstance(seq, dict) and not isinstance(seq, Obj):
            return [Obj(first=k, second=v) for k, v in seq.items()]
        if isinstance(seq, (list, tuple, str)):
            return list(seq)
        raise Unsupported('iteration over ' + type(seq).__name__)

    def unpack(self, it, n):
        if isinstance(it, Obj) and 'first' in it and n == 2:
            return [it['first'], it['second']]
        if isinstance(it, (list, tuple)):
            return list(it)
        return [None] * n

    def truth(self, v):
        if isinstance(v, Obj):
            return True
        return bool(v)

    # ---- expressions ----------------------------------------------------------------------------
    def expr(self, e, env):
        if e is None:
            return None
        k = e['k']
        if k in ('int', 'float', 'bool', 'str'):
            return e['v']
        if k == 'char':
            return chr(e['v'])
        if k == 'nullptr':
            return None
        if k == 'throw':
            raise Thrown(e.get('e'))
        if k == 'dyncast':
            v = self.expr(e['e'], env)
            if v is None:
                return None
            if isinstance(v, Obj) and '__class' in v:
                want = e.get('type', '').replace('const ', '').replace('*', '').strip().split('::')[-1]
                return v if want in v['__class'] else None
            raise Unsupported('dynamic_cast of an object whose class is not modelled')
        if k == 'this':
            if 'this' in env:
                return env['this']
            raise Unsupported('this is not modelled')
        if k == 'defaultarg':
            return self.expr(e['e'], env)
        if k == 'ref':
            if e.get('kind') == 'enum':
                return e['name']
            if e.get('id') in env:
                return env[e['id']]
            m = self.models.get('ref:' + e['name'])
            if m is not None:
                return m(self, e, env)
            if e['name'] in ('std::nullopt', 'nullopt'):
                return None
            if e.get('global'):
                # a constant of the program (`constexpr` / `const` at namespace scope): its compile-time value, or its initialiser
                # evaluated once
                gls = [gl for (nm, fl, ln), gl in self.p.facts.globals.items() if nm == e['name'] and gl.get('const') and not gl.get('tls')]
                if len(gls) == 1:
                    if isinstance(gls[0].get('cv'), int):
                        return gls[0]['cv']
                    if SX.is_node(gls[0].get('init')):
                        cache = self.__dict__.setdefault('_gconst', {})
                        if e['name'] not in cache:
                            cache[e['name']] = self.expr(gls[0]['init'], {})
                        return cache[e['name']]
            raise Unsupported('unbound variable ' + e['name'])
        if k == 'member':
            b = self.expr(e['base'], env)
            if isinstance(b, DictIt) and not b.end and e['name'] in ('first', 'second'):
                return b.key if e['name'] == 'first' else (b.d[b.key] if isinstance(b.d, dict) else None)
            if isinstance(b, Obj):
                if e['name'] in b:
                    return b[e['name']]
                raise Unsupported('field ' + e['name'])
            raise Unsupported('member of non-struct: ' + SX.show(e))
        if k == 'cast':
            v = self.expr(e['e'], env)
            t = e.get('type', '')
            if t in ('double', 'float') and isinstance(v, int) and not isinstance(v, bool):
                return float(v)
            if t in ('int', 'long', 'std::int64_t', 'long long', 'unsigned long', 'size_t') and isinstance(v, float):
                v = int(v)
            if t == 'int' and isinstance(v, int) and not isinstance(v, bool) and not (-2 ** 31 <= v < 2 ** 31):
                # a 32-bit target cannot hold the value: what the conversion yields is not the value (undefined for a floating source,
                # modulo 2^32 for an integral one) — modelled as the wrapped value, so that a result that went through `int` differs
                w_ = v & 0xFFFFFFFF
                return w_ - 2 ** 32 if w_ >= 2 ** 31 else w_
            return v
        if k == 'un':
            op = e['op']
            if op == '!':
                return not self.truth(self.expr(e['e'], env))
            if op == '-':
                return -self.expr(e['e'], env)
            if op == '*':
                v = self.expr(e['e'], env)
                if isinstance(v, Ptr):
                    return self.expr(v.e, v.env)
                return v
            if op == '&' and '::*' in (e.get('t') or '') and SX.is_node(SX.strip(e['e'])) and SX.strip(e['e']).get('k') == 'ref':
                return ('memptr', SX.strip(e['e'])['name'].split('::')[-1])     # pointer to data member `&S::f`
            if op == '&':
                # address of an object or of a container element: the object itself (structs have reference semantics here)
                v = self.expr(e['e'], env)
                if isinstance(v, (Obj, list, dict)):
                    return v
                # address of a scalar lvalue: a pointer that reads/writes that location
                return Ptr(e['e'], env)
            if op in ('++', '--'):
                cur = self.expr(e['e'], env)
                new = (cur or 0) + (1 if op == '++' else -1)
                self.store(e['e'], new, env)
                return cur if e.get('postfix') else new
            raise Unsupported('unary ' + op)
        if k == 'bin':
            op = e['op']
            if op == '&&':
                return self.truth(self.expr(e['l'], env)) and self.truth(self.expr(e['r'], env))
            if op == '||':
                return self.truth(self.expr(e['l'], env)) or self.truth(self.expr(e['r'], env))
            a, b = self.expr(e['l'], env), self.expr(e['r'], env)
            if op in ('.*', '->*'):
                if isinstance(a, Ptr):
                    a = self.expr(a.e, a.env)
                if isinstance(a, Obj) and isinstance(b, tuple) and len(b) == 2 and b[0] == 'memptr' and b[1] in a:
                    return a[b[1]]
                raise Unsupported('member access through ' + SX.show(e['r']))
            return self.binop(op, a, b)
        if k == 'sizeof' and isinstance(e.get('v'), int):
            return e['v']
        if k == 'cond':
            return self.expr(e['t'], env) if self.truth(self.expr(e['c'], env)) else self.expr(e['f'], env)
        if k == 'assign':
            v = self.expr(e['r'], env)
            self.store(e['l'], v, env)
            return v
        if k == 'cassign':
            cur = self.expr(e['l'], env)
            v = self.binop(e['op'][:-1], cur, self.expr(e['r'], env))
            self.store(e['l'], v, env)
            return v
        if k == 'index':
            b = self.expr(e['base'], env)
            i = self.expr(e['i'], env)
            return self.index(b, i, SX.show(e['base']))
        if k == 'opcall':
            op = e['op']
            key = 'op:' + op + ':' + SX.short_type(e.get('at', ''))
            for cand in (key, 'op:' + op):
                if cand in self.models:
                    return self.models[cand](self, e, env)
            if op in ('==', '!=', '<', '>', '<=', '>=') and len(e['args']) == 2:
                cp = SX.cmp_parts(e)      # C++20: (a <=> b) < 0 is a < b
                if cp and cp[0] == op:
                    return self.binop(op, self.expr(cp[1], env), self.expr(cp[2], env))
                return self.binop(op, self.expr(e['args'][0], env), self.expr(e['args'][1], env))
            if op == '=' and len(e['args']) == 2:
                v = self.expr(e['args'][1], env)
                self.store(e['args'][0], v, env)
                return v
            if op in ('*', '->') and len(e['args']) == 1:
                return self.expr(e['args'][0], env)
            if op == '()' and e['args'] and SX.is_node(e['args'][0]) and e['args'][0].get('k') == 'ref':
                lam = self.closure_of(e['args'][0], env)
                if lam is not None:
                    return self.invoke_closure(lam, e['args'][1:], env)
                fv_ = env.get(e['args'][0].get('id'))
                if isinstance(fv_, _Functor) and len(e['args']) == 3:
                    return self.binop(fv_.op, self.expr(e['args'][1], env), self.expr(e['args'][2], env))
            if op in ('++', '--') and e['args']:
                cur = self.expr(e['args'][0], env)
                new = (cur or 0) + (1 if op == '++' else -1)
                self.store(e['args'][0], new, env)
                return new
            if op in ('+=', '-=') and len(e['args']) == 2:
                cur = self.expr(e['args'][0], env)
                v = self.binop(op[0], cur, self.expr(e['args'][1], env))
                self.store(e['args'][0], v, env)
                return v
            if op in ('+', '-') and len(e['args']) == 2:
                a_, b_ = self.expr(e['args'][0], env), self.expr(e['args'][1], env)
                is_it = lambda x: isinstance(x, tuple) and len(x) == 3 and x[0] == 'iter'
                if is_it(a_) and isinstance(b_, int) and not isinstance(b_, bool):
                    np_ = a_[1] + (b_ if op == '+' else -b_)
                    if not 0 <= np_ <= len(a_[2]):
                        raise OutOfRange('iterator moved outside its sequence (%d of %d)' % (np_, len(a_[2])))
                    return ('iter', np_, a_[2])
                if op == '-' and is_it(a_) and is_it(b_) and (a_[2] is b_[2] or (isinstance(a_[2], str) and a_[2] == b_[2])):
                    return a_[1] - b_[1]
                if op == '+':
                    return self.binop('+', a_, b_)
            raise Unsupported('operator ' + op + ' on ' + e.get('at', ''))
        if k in ('call', 'mcall'):
            name = SX.short(SX.callee(e))
            if name in self.models:
                return self.models[name](self, e, env)
            if k == 'call' and (SX.callee(e) or '').startswith(('std::move', 'std::forward')) and len(SX.real_args(e)) == 1:
                return self.expr(SX.real_args(e)[0], env)
            if k == 'call' and (SX.callee(e) or '').split('<')[0] in ('std::sort', 'std::stable_sort', 'std::reverse') and len(SX.real_args(e)) == 2:
                a = [self.expr(x, env) for x in SX.real_args(e)]
                if all(isinstance(x, tuple) and x[0] == 'iter' and len(x) == 3 and isinstance(x[2], list) for x in a) and a[0][2] is a[1][2]:
                    lst = a[0][2]
                    seg = lst[a[0][1]:a[1][1]]
                    seg = sorted(seg) if 'sort' in SX.callee(e) else list(reversed(seg))
                    lst[a[0][1]:a[1][1]] = seg
                    return None
                raise Unsupported('call ' + SX.callee(e))
            if k == 'call' and (SX.callee(e) or '').split('<')[0] in ('std::all_of', 'std::any_of', 'std::none_of') and len(SX.real_args(e)) == 3:
                a = [self.expr(x, env) for x in SX.real_args(e)]
                if all(isinstance(x, tuple) and x[0] == 'iter' and len(x) == 3 for x in a[:2]) and (a[0][2] is a[1][2] or a[0][2] == a[1][2]) \
                        and isinstance(a[2], dict) and a[2].get('k') == 'lambda':
                    seq = a[0][2]
                    res = []
                    for i_ in range(a[0][1], a[1][1]):
                        x_ = seq[i_]
                        lit = {'k': 'char', 'v': ord(x_)} if isinstance(x_, str) and len(x_) == 1 else ({'k': 'int', 'v': x_} if isinstance(x_, int) and not isinstance(x_, bool) else None)
                        if lit is None:
                            raise Unsupported('call ' + SX.callee(e))
                        res.append(self.truth(self.invoke_closure(a[2], [lit], env)))
                        # the standard algorithms stop at the first element that decides the answer
                        if ('all_of' in SX.callee(e) and not res[-1]) or ('all_of' not in SX.callee(e) and res[-1]):
                            break
                    nm = SX.callee(e)
                    return all(res) if 'all_of' in nm else (any(res) if 'any_of' in nm else not any(res))
                raise Unsupported('call ' + SX.callee(e) + ' ' + SX.show(e)[:60])
            if k == 'call' and (SX.callee(e) or '').split('<')[0] in ('std::find_if', 'std::find_if_not') and len(SX.real_args(e)) == 3:
                a = [self.expr(x, env) for x in SX.real_args(e)]
                if all(isinstance(x, tuple) and x[0] == 'iter' and len(x) == 3 for x in a[:2]) and (a[0][2] is a[1][2] or a[0][2] == a[1][2]) \
                        and isinstance(a[2], dict) and a[2].get('k') == 'lambda':
                    want = 'not' not in SX.callee(e)
                    seq = a[0][2]
                    for i_ in range(a[0][1], a[1][1]):
                        x_ = seq[i_]
                        lit = {'k': 'char', 'v': ord(x_)} if isinstance(x_, str) and len(x_) == 1 else ({'k': 'int', 'v': x_} if isinstance(x_, int) else None)
                        if lit is None:
                            raise Unsupported('call ' + SX.callee(e))
                        if self.truth(self.invoke_closure(a[2], [lit], env)) == want:
                            return ('iter', i_, seq)
                    return ('iter', a[1][1], seq)
                raise Unsupported('call ' + SX.callee(e))
            if k == 'call' and (SX.callee(e) or '').split('<')[0] in ('std::copy', 'std::fill') and len(SX.real_args(e)) == 3:
                a = [self.expr(x, env) for x in SX.real_args(e)]
                if all(isinstance(x, tuple) and x[0] == 'iter' and len(x) == 3 and isinstance(x[2], list) for x in a[:2]) and a[0][2] is a[1][2]:
                    src = a[0][2]
                    if (SX.callee(e) or '').startswith('std::copy'):
                        d = a[2]
                        if not (isinstance(d, tuple) and d[0] == 'iter' and len(d) == 3 and isinstance(d[2], list)):
                            raise Unsupported('std::copy destination')
                        seg = src[a[0][1]:a[1][1]]
                        if d[1] + len(seg) > len(d[2]):
                            raise OutOfRange('std::copy writes past the end of the destination (%d + %d > %d)' % (d[1], len(seg), len(d[2])))
                        d[2][d[1]:d[1] + len(seg)] = seg
                        return ('iter', d[1] + len(seg), d[2])
                    for i_ in range(a[0][1], a[1][1]):
                        src[i_] = a[2]
                    return None
                raise Unsupported('call ' + SX.callee(e))
            if k == 'call' and (SX.callee(e) or '').split('<')[0] in ('std::tie', 'std::make_tuple', 'std::forward_as_tuple', 'std::make_pair'):
                # tuples of scalars, used for lexicographic comparison: a Python tuple of the current values
                return tuple(self.expr(a, env) for a in SX.real_args(e))
            if k == 'call' and SX.callee(e) == 'std::to_string' and len(SX.real_args(e)) == 1:
                v_ = self.expr(SX.real_args(e)[0], env)
                return ('%f' % v_) if isinstance(v_, float) else str(int(v_))
            if k == 'call' and SX.callee(e) in ('std::isdigit', 'isdigit') and len(SX.real_args(e)) == 1:
                c = self.expr(SX.real_args(e)[0], env)
                return isinstance(c, str) and len(c) == 1 and c.isdigit() and c.isascii()
            if k == 'call' and SX.callee(e) in ('std::stoi', 'std::stol', 'std::stoll') and len(SX.real_args(e)) >= 1:
                t = self.expr(SX.real_args(e)[0], env)
                lim = 2 ** 31 if SX.callee(e) == 'std::stoi' else 2 ** 63
                import re as _re
                m = _re.match(r'\s*([+-]?\d+)', t) if isinstance(t, str) else None
                if not m or not (-lim <= int(m.group(1)) < lim):
                    raise Thrown(e)
                return int(m.group(1))
            if k == 'call' and (SX.callee(e) or '').startswith('std::numeric_limits<') and name in ('max', 'min') and not SX.real_args(e):
                t = SX.callee(e)
                bits = 63 if ('long' in t or 'int64' in t) else 31
                return (2 ** bits - 1) if name == 'max' else -(2 ** bits)
            if k == 'mcall' and name in ('operator bool', 'has_value') and not SX.real_args(e):
                return self.expr(e['obj'], env) is not None
            if k == 'mcall':
                r = self.container_call(e, name, env)
                if r is not _NOPE:
                    return r
            fs = [f for f in self.p.resolve(e) if f.body]
            if not fs and k == 'call' and SX.callee(e):
                # a call written inside a function template is resolved at instantiation; by name, when one function bears it
                fs = [f for f in self.p.by_name.get(SX.callee(e), []) if f.body and f.kind != 'lambda']
            if len(fs) == 1:
                args = [self.expr(a, env) for a in SX.real_args(e)]
                if k == 'mcall' and SX.is_node(e.get('obj')):
                    # a member function runs on its object: `this` inside the callee is the evaluated object expression
                    o = SX.strip(e['obj'])
                    if SX.is_node(o) and o.get('k') == 'this':
                        if 'this' in env:
                            rv_ = self.call_fn_env(fs[0], args, {'this': env['this']})
                            self._copy_back(fs[0], SX.real_args(e), self.last_env, env)
                            return rv_
                    else:
                        ov = self.expr(e['obj'], env)
                        if isinstance(ov, Obj):
                            rv_ = self.call_fn_env(fs[0], args, {'this': ov})
                            self._copy_back(fs[0], SX.real_args(e), self.last_env, env)
                            return rv_
                rv_ = self.call_fn(fs[0], args)
                self._copy_back(fs[0], SX.real_args(e), self.last_env, env)
                return rv_
            if k == 'call' and not SX.callee(e) and SX.is_node(e.get('calleeExpr')):
                # call through a closure-valued expression (generic lambdas: `op(a, b)` with op a parameter)
                cv = self.expr(e['calleeExpr'], env)
                if isinstance(cv, dict) and cv.get('k') == 'lambda':
                    return self.invoke_closure(cv, e.get('args', []), env)
                if isinstance(cv, _Functor) and len(e.get('args', [])) == 2:
                    return self.binop(cv.op, self.expr(e['args'][0], env), self.expr(e['args'][1], env))
            raise Unsupported('call ' + SX.callee(e) + ' ' + SX.show(e)[:80] + ' resolved=%d' % len(self.p.resolve(e)))
        if k == 'construct':
            t = SX.short_type(e['type'])
            if 'ctor:' + t in self.models:
                return self.models['ctor:' + t](self, e, env)
            a = SX.real_args(e)
            rec = self.p.facts.records.get(e['type'])
            if rec and a and e.get('inroot'):
                ctors = [f for f in self.p.functions if f.kind == 'ctor' and f.name == e.get('ctor') and (e.get('sig') is None or f.sig == e.get('sig'))]
                if len(ctors) == 1 and (ctors[0].d.get('inits') or ctors[0].body):
                    c = ctors[0]
                    o = self.default_struct(rec, env)
                    cenv = {'this': o}
                    for prm, arg in zip(c.params, e.get('args', [])):
                        cenv[prm['id']] = self.expr(arg, env)
                    for i in c.d.get('inits', []):
                        if i.get('member'):
                            o[i['member']] = self.expr(i['init'], cenv)
                    if c.body:
                        try:
                            self.stmt(c.body, cenv)
                        except Ret:
                            pass
                    return o
            if len(a) == 2 and e['type'].replace('const ', '').startswith('std::pair<'):
                return Obj(first=self.expr(a[0], env), second=self.expr(a[1], env))
            if not a and e['type'].replace('const ', '').split('<')[0] in _FUNCTORS:
                return _Functor(_FUNCTORS[e['type'].replace('const ', '').split('<')[0]])
            if len(a) == 1 and e['type'].startswith('std::vector'):
                n = self.expr(a[0], env)
                if isinstance(n, int) and not isinstance(n, bool):
                    return [0] * n
                return n
            if len(a) == 1:
                return self.expr(a[0], env)
            if not a:
                if rec:
                    return self.default_struct(rec, env)
                if e['type'].startswith('std::string'):
                    return ''
                if e['type'].startswith('std::vector'):
                    return []
                if 'unordered_set<' in e['type'] or e['type'].startswith('std::set<'):
                    return set()
                if 'map<' in e['type']:
                    return {}
            raise Unsupported('construct ' + e['type'])
        if k == 'initlist':
            if not e.get('items') and (e.get('type') or '').replace('const ', '').split('<')[0] in _FUNCTORS:
                return _Functor(_FUNCTORS[e['type'].replace('const ', '').split('<')[0]])
            rec = self.p.facts.records.get(e['type']) or self.p.facts.records.get((e.get('type') or '').replace('const ', '').strip())
            if rec is None and e.get('type') in ('void', '<dependent type>') and len(e.get('items', [])) > 1:
                # a braced return value inside a generic lambda (`-> Value { return {Value::Type::Int, …}; }`): the target type is
                # not recorded on the node; it is the one record whose leading field has the type of the leading item
                it0 = SX.strip(e['items'][0])
                t0 = it0.get('t') if SX.is_node(it0) else None
                cands = [r for r in self.p.facts.records.values() if r.get('fields') and len([f_ for f_ in r['fields'] if not f_['static']]) >= len(e['items'])
                         and [f_ for f_ in r['fields'] if not f_['static']][0]['type'] == t0]
                items = [it for it in e['items'] if not (SX.is_node(it) and it.get('k') == 'defaultarg')]
                if t0 and len(cands) > 1:
                    # several records start with that type: keep those the remaining items fit (a constructor of that shape, or
                    # aggregate fields whose kinds agree with the items: number ↔ number, string ↔ string)
                    def kind_(t_):
                        t_ = (t_ or '').replace('const ', '')
                        return 's' if 'string' in t_ else ('n' if t_ in ('int', 'long', 'double', 'float', 'bool', 'char', 'unsigned long', 'std::int64_t', 'long long') else '?')

                    def fits(r):
                        if [c for c in self.p.functions if c.kind == 'ctor' and c.cls == r['name'] and len(c.params) >= len(items) and c.params
                                and c.params[0].get('type') == t0 and len(c.params) > 1]:
                            return True
                        fl = [f_ for f_ in r['fields'] if not f_['static']]
                        return all(kind_(f_['type']) == kind_(SX.strip(it).get('t') if SX.is_node(SX.strip(it)) else '') != '?' for f_, it in list(zip(fl, items))[1:])
                    cands = [r for r in cands if fits(r)]
                if t0 and len(cands) == 1:
                    rec = cands[0]
                    ctors = [c for c in self.p.functions if c.kind == 'ctor' and c.cls == rec['name'] and len(c.params) >= len(items) > 1
                             and c.params and c.params[0].get('type') == t0 and (c.d.get('inits') or c.body)]
                    o = self.default_struct(rec, env)
                    if len(ctors) == 1:
                        # the braces call the record's constructor; parameters not supplied keep their defaults (the member defaults)
                        c = ctors[0]
                        cenv = {'this': o}
                        given = set()
                        for prm, arg in zip(c.params, items):
                            cenv[prm['id']] = self.expr(arg, env)
                            given.add(prm['id'])
                        for i in c.d.get('inits', []):
                            refs = {x.get('id') for x in SX.walk(i['init']) if x['k'] == 'ref' and x.get('kind') == 'param'}
                            if i.get('member') and refs and refs <= given:
                                o[i['member']] = self.expr(i['init'], cenv)
                        return o
                    if not [c for c in self.p.functions if c.kind == 'ctor' and c.cls == rec['name'] and c.params]:
                        for f_, it in zip([f_ for f_ in rec['fields'] if not f_['static']], items):
                            o[f_['name']] = self.expr(it, env)
                        return o
                    rec = None
            if rec and e.get('fields'):
                o = self.default_struct(rec, env)
                for name, it in zip(e['fields'], e['items']):
                    o[name] = self.expr(it, env)
                return o
            if not e['items']:
                if rec:
                    return self.default_struct(rec, env)
                t = e.get('type', '')
                if t in ('int', 'long', 'unsigned long', 'size_t', 'double', 'float', 'bool', 'char'):
                    return False if t == 'bool' else 0
                return None
            if not rec and re.search(r'\[\d*\]$', e.get('type', '')):
                return [self.expr(it, env) for it in e['items']]      # built-in array: T a[N] = {…}
            if not rec and len(e['items']) == 1:
                return self.expr(e['items'][0], env)      # scalar brace initialisation: int x{0}
            raise Unsupported('initlist ' + e['type'])
        if k == 'zeroinit':
            return 0
        if k == 'lambda':
            return e
        raise Unsupported('expression ' + k + ': ' + SX.show(e)[:60])

    def invoke_closure(self, lam, argexprs, env):
        """call of a closure (lambda node) in the activation that created it: captures are the shared environment"""
        lenv = dict(env)
        pids = set()
        for prm, a in zip(lam['params'], argexprs):
            lenv[prm['id']] = self.expr(a, env)
            pids.add(prm['id'])
        rv = None
        try:
            self.stmt(lam['body'], lenv)
        except Ret as r:
            rv = r.v
        # by-reference captures and by-reference parameters: what the closure assigned is visible to the caller
        for kk in list(env):
            if kk in lenv and kk not in pids:
                env[kk] = lenv[kk]
        for prm, a in zip(lam['params'], argexprs):
            t = (prm.get('type') or '').strip()
            if t.endswith('&') and not t.startswith('const') and SX.is_node(SX.strip(a)) and SX.strip(a).get('k') == 'ref':
                self.store(a, lenv[prm['id']], env)
        return rv

    def closure_of(self, ref, env):
        v = env.get(ref.get('id'))
        if isinstance(v, dict) and v.get('k') == 'lambda':
            return v
        if ref.get('global'):
            for (nm, fl, ln), gl in self.p.facts.globals.items():
                if nm == ref['name'] and SX.is_node(gl.get('init')) and gl['init'].get('k') == 'lambda':
                    return gl['init']
        return None

    def index(self, b, i, what):
        if isinstance(b, dict) and not isinstance(b, Obj):
            if i not in b:
                b[i] = self.new_elem(what)
            return b[i]
        if isinstance(b, (list, str)):
            if isinstance(i, int) and 0 <= i < len(b):
                return b[i]
            self.effects.append(('out-of-range', what, i))
            raise OutOfRange('subscript out of range: %s[%s]' % (what, i))
        raise Unsupported('subscript of ' + what)

    def new_elem(self, what):
        return {}

    def container_call(self, e, name, env):
        o = self.expr(e.get('obj'), env)
        a = [self.expr(x, env) for x in SX.real_args(e)]
        if isinstance(o, str):
            if name == 'rfind' and a and isinstance(a[0], str):
                return o.rfind(a[0]) if o.rfind(a[0]) >= 0 else 2 ** 64 - 1
            if name == 'find' and a and isinstance(a[0], str):
                return o.find(a[0]) if o.find(a[0]) >= 0 else 2 ** 64 - 1
            if name == 'substr':
                st = a[0] if a else 0
                return o[st:st + a[1]] if len(a) > 1 else o[st:]
            if name in ('length',):
                return len(o)
            NPOS = 2 ** 64 - 1
            if name in ('find_last_not_of', 'find_last_of', 'find_first_not_of', 'find_first_of') and a and isinstance(a[0], (str, int)):
                cs = a[0] if isinstance(a[0], str) else chr(a[0])
                rng_ = range(len(o) - 1, -1, -1) if 'last' in name else range(len(o))
                want_in = not name.endswith('not_of')
                for i_ in rng_:
                    if (o[i_] in cs) == want_in:
                        return i_
                return NPOS
            if name == 'erase' and a and isinstance(a[0], int) and not isinstance(a[0], bool):
                st = a[0] % (2 ** 64)
                if st > len(o):
                    raise OutOfRange('erase position %d past the end of a string of length %d' % (st, len(o)))
                n_ = a[1] if len(a) > 1 and isinstance(a[1], int) else None
                self.store(e['obj'], o[:st] + (o[st + n_:] if n_ is not None else ''), env)
                return None
            if name == 'pop_back' and o:
                self.store(e['obj'], o[:-1], env)
                return None
            if name == 'resize' and a and isinstance(a[0], int):
                self.store(e['obj'], o[:a[0]] if a[0] <= len(o) else o + '\0' * (a[0] - len(o)), env)
                return None
            if name == 'front' and o:
                return o[0]
            if name == 'back' and o:
                return o[-1]
            if name == 'erase' and len(a) == 1 and isinstance(a[0], tuple) and a[0][0] == 'iter':
                self.store(e['obj'], o[:a[0][1]] + o[a[0][1] + 1:], env)
                return None
        if isinstance(o, (list, str, dict, set)) and not isinstance(o, Obj):
            if name == 'size':
                return len(o)
            if name == 'empty':
                return len(o) == 0
            if name == 'push_back' and isinstance(o, list):
                o.append(a[0])
                return None
            if name == 'back' and isinstance(o, list) and o:
                return o[-1]
            if name == 'front' and isinstance(o, list) and o:
                return o[0]
            if name in ('front', 'back', 'pop_back') and isinstance(o, list) and not o:
                raise OutOfRange('%s() on an empty %s' % (name, SX.show(e.get('obj'))[:30]))
            if name == 'pop_back' and isinstance(o, list) and o:
                o.pop()
                return None
            if name == 'push_back' and isinstance(o, str):
                self.store(e['obj'], o + a[0], env)
                return None
            if name in ('begin', 'end', 'cbegin', 'cend') and isinstance(o, (str, list)):
                return ('iter', 0 if 'begin' in name else len(o), o)
            if name == 'insert' and isinstance(o, str) and len(a) == 2 and isinstance(a[0], tuple) and a[0][0] == 'iter':
                self.store(e['obj'], o[:a[0][1]] + a[1] + o[a[0][1]:], env)
                return None
            if name == 'insert' and isinstance(o, list) and len(a) == 2 and isinstance(a[0], tuple) and a[0][0] == 'iter':
                o.insert(a[0][1], a[1])
                return None
            if name in ('find', 'count') and isinstance(o, dict):
                return (a[0] in o) if name == 'count' else (DictIt(o, a[0]) if a[0] in o else DictIt(o, end=True))
            if name in ('end', 'cend') and isinstance(o, dict):
                return DictIt(o, end=True)
            if name in ('find', 'count') and isinstance(o, set):
                return (a[0] in o) if name == 'count' else (DictIt(o, a[0]) if a[0] in o else DictIt(o, end=True))
            if name == 'insert' and isinstance(o, set) and len(a) == 1:
                fresh = a[0] not in o
                o.add(a[0])
                return Obj(first=DictIt(o, a[0]), second=fresh)
            if name == 'clear':
                if isinstance(o, (list, dict)):
                    o.clear()
                    return None
            if name == 'resize' and isinstance(o, list) and a and isinstance(a[0], int):
                fill = a[1] if len(a) > 1 else 0
                if a[0] < 0:
                    raise OutOfRange('resize(%d) on %s' % (a[0], SX.show(e.get('obj'))))
                if a[0] < len(o):
                    del o[a[0]:]
                else:
                    o.extend([fill] * (a[0] - len(o)))
                return None
            if name == 'assign' and isinstance(o, list) and len(a) == 2 and isinstance(a[0], int):
                o[:] = [a[1]] * a[0]
                return None
            if name == 'swap' and isinstance(o, list) and len(a) == 1 and isinstance(a[0], list):
                tmp = list(o)
                o[:] = a[0]
                a[0][:] = tmp
                return None
        return _NOPE

    def default_struct(self, rec, env):
        o = Obj()
        for f in rec['fields']:
            if f['static']:
                continue
            if f.get('init') is not None:
                o[f['name']] = self.expr(f['init'], env)
            else:
                t = f['type']
                o[f['name']] = 0 if t in ('int', 'long', 'bool', 'double', 'unsigned long') else ([] if t.startswith('std::vector') else ('' if t.startswith('std::string') else None))
        return o

    def store(self, l, v, env):
        l = SX.strip(l)
        if l['k'] == 'ref':
            env[l['id']] = v
            return
        if l['k'] == 'index':
            b = self.expr(l['base'], env)
            i = self.expr(l['i'], env)
            if isinstance(b, dict) and not isinstance(b, Obj):
                b[i] = v
                self.effects.append(('store-elem', SX.show(l['base']), i, v))
                return
            if isinstance(b, list) and isinstance(i, int) and 0 <= i < len(b):
                b[i] = v
                return
            if isinstance(b, list) and isinstance(i, int):
                raise OutOfRange('store out of range: %s[%s] (length %d)' % (SX.show(l['base']), i, len(b)))
            raise Unsupported('store to element of ' + SX.show(l['base']))
        if l['k'] == 'member':
            b = self.expr(l['base'], env)
            if isinstance(b, Obj):
                b[l['name']] = v
                self.effects.append(('store', l['name'], v))
                return
        if l['k'] == 'bin' and l.get('op') in ('.*', '->*'):
            a, b = self.expr(l['l'], env), self.expr(l['r'], env)
            if isinstance(a, Ptr):
                a = self.expr(a.e, a.env)
            if isinstance(a, Obj) and isinstance(b, tuple) and len(b) == 2 and b[0] == 'memptr':
                a[b[1]] = v
                self.effects.append(('store', b[1], v))
                return
        if l['k'] == 'un' and l.get('op') == '*':
            p_ = self.expr(l['e'], env)
            if isinstance(p_, Ptr):
                return self.store(p_.e, v, p_.env)
        raise Unsupported('store to ' + SX.show(l))

    @staticmethod
    def binop(op, a, b):
        if op == '==':
            return a == b
        if op == '!=':
            return a != b
        if op == '<':
            return a < b
        if op == '>':
            return a > b
        if op == '<=':
            return a <= b
        if op == '>=':
            return a >= b
        if op == '+':
            return a + b
        if op == '-':
            return a - b
        if op == '*':
            return a * b
        if op == '/':
            if isinstance(a, float) or isinstance(b, float):
                return a / b
            q = abs(a) // abs(b)
            return q if (a >= 0) == (b >= 0) else -q
        if op == '%':
            r = abs(a) % abs(b)
            return r if a >= 0 else -r
        if op == '&':
            return a & b
        if op == '|':
            return a | b
        if op == '^':
            return a ^ b
        raise Unsupported('binary ' + op)


_FUNCTORS = {'std::plus': '+', 'std::minus': '-', 'std::multiplies': '*', 'std::divides': '/', 'std::modulus': '%', 'std::greater': '>', 'std::less': '<',
             'std::greater_equal': '>=', 'std::less_equal': '<=', 'std::equal_to': '==', 'std::not_equal_to': '!=', 'std::bit_and': '&', 'std::bit_or': '|',
             'std::bit_xor': '^', 'std::logical_and': '&&', 'std::logical_or': '||'}


class _Functor:
    """a standard function object (`std::plus<>{}`): applying it is applying the operator it names"""
    def __init__(self, op):
        self.op = op

    def __deepcopy__(self, memo):
        return self


class _Break(Exception):
    pass


class _Continue(Exception):
    pass


_NOPE = object()
