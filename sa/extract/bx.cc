// bx — fact extractor for the bloch static-verification framework.
//
// A libTooling front-end action that parses one translation unit of /repo with its real flags and
// writes, as one JSON document, a *type-resolved simplified syntax tree* ("sx") of every function,
// record, enum and namespace-scope variable that is defined in a file below --root.
//
// Simplification rules (so that the Python rules see program structure, not clang plumbing):
//   * implicit casts, parentheses, temporaries, cleanups, copy/move-constructor wrappers are erased;
//   * every call carries its resolved callee (qualified name), member calls their object expression;
//   * C++20 rewritten comparison operators appear in their semantic form;
//   * every reference to a local/parameter carries the declaration id "line:col" so shadowing is exact;
//   * every statement and call carries line/col in the file it was spelled in;
//   * lambdas are nested function nodes (params, captures, body).
// Nothing is executed; nothing outside clang's own semantic analysis is inferred here.
#include "clang/AST/ASTConsumer.h"
#include "clang/AST/ExprCXX.h"
#include "clang/AST/RecursiveASTVisitor.h"
#include "clang/AST/StmtCXX.h"
#include "clang/Frontend/CompilerInstance.h"
#include "clang/Frontend/FrontendAction.h"
#include "clang/Lex/Lexer.h"
#include "clang/Tooling/CommonOptionsParser.h"
#include "clang/Tooling/Tooling.h"
#include "llvm/Support/CommandLine.h"
#include "llvm/Support/FileSystem.h"
#include "llvm/Support/JSON.h"
#include "llvm/Support/raw_ostream.h"

using namespace clang;
using namespace clang::tooling;
namespace J = llvm::json;

static llvm::cl::OptionCategory Cat("bx");
static llvm::cl::opt<std::string> Root("root", llvm::cl::desc("only emit declarations spelled in files below this path"),
                                       llvm::cl::cat(Cat), llvm::cl::init("/repo/src"));
static llvm::cl::opt<std::string> Out("o", llvm::cl::desc("output file"), llvm::cl::cat(Cat), llvm::cl::init("-"));

namespace {

typedef std::vector<std::pair<std::string, J::Value>> KV;

static void replaceAll(std::string &s, const std::string &a, const std::string &b) {
    size_t p = 0;
    while ((p = s.find(a, p)) != std::string::npos) {
        s.replace(p, a.size(), b);
        p += b.size();
    }
}

struct Ex {
    ASTContext &C;
    const SourceManager &SM;
    PrintingPolicy PP;
    explicit Ex(ASTContext &C) : C(C), SM(C.getSourceManager()), PP(C.getPrintingPolicy()) {
        PP.SuppressTagKeyword = true;
        PP.Bool = true;
    }

    std::string ty(QualType T) {
        if (T.isNull()) return "";
        std::string s = T.getCanonicalType().getAsString(PP);
        replaceAll(s, "std::basic_string<char, std::char_traits<char>, std::allocator<char>>", "std::string");
        replaceAll(s, "std::basic_string<char>", "std::string");
        replaceAll(s, "std::basic_string_view<char, std::char_traits<char>>", "std::string_view");
        replaceAll(s, "std::basic_string_view<char>", "std::string_view");
        // drop default allocator / hash noise
        replaceAll(s, ", std::allocator<std::string>", "");
        return s;
    }
    std::string file(SourceLocation L) {
        L = SM.getFileLoc(L);
        auto F = SM.getFilename(L);
        return F.str();
    }
    int line(SourceLocation L) { return SM.getSpellingLineNumber(SM.getFileLoc(L)); }
    int col(SourceLocation L) { return SM.getSpellingColumnNumber(SM.getFileLoc(L)); }
    std::string declId(const Decl *D) {
        return std::to_string(line(D->getLocation())) + ":" + std::to_string(col(D->getLocation()));
    }
    bool inRoot(SourceLocation L) {
        std::string f = file(L);
        return f.compare(0, Root.size(), Root) == 0 && f.find("/third_party/") == std::string::npos;
    }
    std::string src(const Stmt *S) {
        return Lexer::getSourceText(CharSourceRange::getTokenRange(S->getSourceRange()), SM, C.getLangOpts()).str();
    }

    J::Value node(StringRef k, KV kv, const Stmt *S = nullptr) {
        J::Object o;
        o["k"] = k;
        if (S) {
            o["ln"] = line(S->getBeginLoc());
            o["col"] = col(S->getBeginLoc());
        }
        for (auto &p : kv) o[p.first] = std::move(p.second);
        return J::Value(std::move(o));
    }
    template <class R>
    J::Value args(R range) {
        J::Array a;
        for (auto *A : range) a.push_back(E(A));
        return J::Value(std::move(a));
    }
    std::string sig(const FunctionDecl *FD) {
        std::string s = "(";
        if (FD)
            for (unsigned i = 0; i < FD->getNumParams(); ++i) {
                if (i) s += ", ";
                s += ty(FD->getParamDecl(i)->getType());
            }
        return s + ")";
    }
    void calleeInfo(const FunctionDecl *FD, KV &kv) {
        if (!FD) return;
        if (inRoot(FD->getLocation())) {
            kv.push_back({"sig", sig(FD)});
            kv.push_back({"inroot", true});
        }
    }
    std::string targs(const FunctionDecl *FD) {
        std::string s;
        if (!FD) return s;
        if (auto *TA = FD->getTemplateSpecializationArgs()) {
            for (unsigned i = 0; i < TA->size(); ++i) {
                if (i) s += ", ";
                const TemplateArgument &A = TA->get(i);
                if (A.getKind() == TemplateArgument::Type)
                    s += ty(A.getAsType());
                else {
                    llvm::raw_string_ostream os(s);
                    A.print(PP, os, true);
                }
            }
        }
        return s;
    }

    J::Value lambda(const LambdaExpr *x) {
        J::Array ps;
        for (auto *P : x->getCallOperator()->parameters())
            ps.push_back(J::Object{{"name", P->getNameAsString()}, {"type", ty(P->getType())}, {"id", declId(P)}});
        J::Array caps;
        for (auto &c : x->captures()) {
            J::Object o;
            if (c.capturesThis())
                o["name"] = "this";
            else if (c.capturesVariable()) {
                o["name"] = c.getCapturedVar()->getNameAsString();
                o["id"] = declId(c.getCapturedVar());
            }
            o["byref"] = c.getCaptureKind() == LCK_ByRef;
            caps.push_back(std::move(o));
        }
        return node("lambda",
                    {{"params", J::Value(std::move(ps))},
                     {"captures", J::Value(std::move(caps))},
                     {"defcap", (int64_t)x->getCaptureDefault()},
                     {"body", S(x->getBody())}},
                    x);
    }

    J::Value E(const Expr *e) {
        if (!e) return nullptr;
        e = e->IgnoreParens();
        if (auto *x = dyn_cast<ImplicitCastExpr>(e)) return E(x->getSubExpr());
        if (auto *x = dyn_cast<ExprWithCleanups>(e)) return E(x->getSubExpr());
        if (auto *x = dyn_cast<MaterializeTemporaryExpr>(e)) return E(x->getSubExpr());
        if (auto *x = dyn_cast<CXXBindTemporaryExpr>(e)) return E(x->getSubExpr());
        if (auto *x = dyn_cast<ConstantExpr>(e)) return E(x->getSubExpr());
        if (auto *x = dyn_cast<CXXDefaultInitExpr>(e)) return E(x->getExpr());
        if (auto *x = dyn_cast<SubstNonTypeTemplateParmExpr>(e)) return E(x->getReplacement());
        if (auto *x = dyn_cast<OpaqueValueExpr>(e)) return E(x->getSourceExpr());
        if (auto *x = dyn_cast<CXXStdInitializerListExpr>(e)) return E(x->getSubExpr());
        if (auto *x = dyn_cast<CXXRewrittenBinaryOperator>(e)) return E(x->getSemanticForm());
        if (auto *x = dyn_cast<CXXDefaultArgExpr>(e)) return node("defaultarg", {{"e", E(x->getExpr())}});
        if (auto *x = dyn_cast<IntegerLiteral>(e))
            return node("int", {{"v", (int64_t)x->getValue().getLimitedValue()}, {"t", ty(x->getType())}});
        if (auto *x = dyn_cast<FloatingLiteral>(e))
            return node("float", {{"v", x->getValueAsApproximateDouble()}, {"t", ty(x->getType())}});
        if (auto *x = dyn_cast<CXXBoolLiteralExpr>(e)) return node("bool", {{"v", x->getValue()}});
        if (auto *x = dyn_cast<clang::StringLiteral>(e))
            return node("str", {{"v", x->getCharByteWidth() == 1 ? x->getString().str() : std::string("?")}});
        if (auto *x = dyn_cast<CharacterLiteral>(e)) return node("char", {{"v", (int64_t)x->getValue()}});
        if (isa<CXXNullPtrLiteralExpr>(e) || isa<GNUNullExpr>(e)) return node("nullptr", {});
        if (auto *x = dyn_cast<CXXThisExpr>(e)) return node("this", {{"implicit", x->isImplicit()}});
        if (auto *x = dyn_cast<DeclRefExpr>(e)) {
            auto *D = x->getDecl();
            std::string kind = isa<EnumConstantDecl>(D) ? "enum"
                               : isa<FunctionDecl>(D)   ? "fn"
                               : isa<ParmVarDecl>(D)    ? "param"
                               : isa<BindingDecl>(D)    ? "binding"
                               : "var";
            bool global = false;
            if (auto *V = dyn_cast<VarDecl>(D)) global = V->hasGlobalStorage();
            std::string nm = (kind == "enum" || kind == "fn" || global) ? D->getQualifiedNameAsString()
                                                                         : D->getNameAsString();
            KV kv{{"kind", kind}, {"name", nm}, {"t", ty(x->getType())}};
            if (kind != "enum" && kind != "fn") kv.push_back({"id", declId(D)});
            if (global) kv.push_back({"global", true});
            if (isa<FieldDecl>(D) || isa<CXXMethodDecl>(D)) kv.push_back({"q", D->getQualifiedNameAsString()});    // `&S::f`
            return node("ref", std::move(kv));
        }
        if (auto *x = dyn_cast<MemberExpr>(e)) {
            return node("member", {{"base", E(x->getBase())},
                                   {"name", x->getMemberDecl()->getNameAsString()},
                                   {"q", x->getMemberDecl()->getQualifiedNameAsString()},
                                   {"arrow", x->isArrow()},
                                   {"t", ty(x->getType())}},
                        e);
        }
        if (auto *x = dyn_cast<CompoundAssignOperator>(e))
            return node("cassign",
                        {{"op", x->getOpcodeStr().str()}, {"l", E(x->getLHS())}, {"r", E(x->getRHS())}, {"t", ty(x->getType())}}, e);
        if (auto *x = dyn_cast<BinaryOperator>(e))
            return node(x->isAssignmentOp() ? "assign" : "bin",
                        {{"op", x->getOpcodeStr().str()}, {"l", E(x->getLHS())}, {"r", E(x->getRHS())}, {"t", ty(x->getType())},
                         {"lt", ty(x->getLHS()->getType())}},
                        e);
        if (auto *x = dyn_cast<UnaryOperator>(e))
            return node("un", {{"op", UnaryOperator::getOpcodeStr(x->getOpcode()).str()},
                               {"postfix", x->isPostfix()},
                               {"e", E(x->getSubExpr())},
                               {"t", ty(x->getType())}},
                        e);
        if (auto *x = dyn_cast<ConditionalOperator>(e))
            return node("cond", {{"c", E(x->getCond())}, {"t", E(x->getTrueExpr())}, {"f", E(x->getFalseExpr())}}, e);
        if (auto *x = dyn_cast<ArraySubscriptExpr>(e))
            return node("index", {{"base", E(x->getBase())}, {"i", E(x->getIdx())}, {"t", ty(x->getType())}}, e);
        if (auto *x = dyn_cast<CXXOperatorCallExpr>(e)) {
            const FunctionDecl *FD = x->getDirectCallee();
            std::string callee = FD ? FD->getQualifiedNameAsString() : "?";
            bool member = FD && isa<CXXMethodDecl>(FD);
            std::string op = getOperatorSpelling(x->getOperator());
            // container subscript / call operators keep their own node kinds
            if (x->getOperator() == OO_Subscript && x->getNumArgs() == 2)
                return node("index", {{"base", E(x->getArg(0))}, {"i", E(x->getArg(1))}, {"callee", callee}, {"t", ty(x->getType())},
                                      {"bt", ty(x->getArg(0)->getType())}},
                            e);
            KV kv{{"op", op}, {"callee", callee}, {"member", member}, {"args", args(x->arguments())}, {"t", ty(x->getType())},
                  {"at", x->getNumArgs() ? ty(x->getArg(0)->getType()) : std::string()}};
            calleeInfo(FD, kv);
            return node("opcall", std::move(kv), e);
        }
        if (auto *x = dyn_cast<CXXMemberCallExpr>(e)) {
            const CXXMethodDecl *MD = x->getMethodDecl();
            if (!MD)
                if (auto *BO = dyn_cast<BinaryOperator>(x->getCallee()->IgnoreParens()))
                    if (BO->isPtrMemOp()) {
                        // `(obj.*pm)(args)`: a call through a pointer to member function
                        KV kv{{"callee", std::string()}, {"calleeExpr", E(BO)}, {"args", args(x->arguments())}, {"t", ty(x->getType())}};
                        return node("call", std::move(kv), e);
                    }
            std::string callee = MD ? MD->getQualifiedNameAsString() : "?";
            const Expr *obj = x->getImplicitObjectArgument();
            KV kv{{"obj", E(obj)}, {"callee", callee}, {"args", args(x->arguments())}, {"t", ty(x->getType())}};
            if (obj) kv.push_back({"ot", ty(obj->getType())});
            if (MD) {
                calleeInfo(MD, kv);
                kv.push_back({"constm", MD->isConst()});
                if (MD->isVirtual()) kv.push_back({"virtual", true});
                std::string ta = targs(MD);
                if (!ta.empty()) kv.push_back({"targs", ta});
            }
            if (auto *ME = dyn_cast<MemberExpr>(x->getCallee()->IgnoreParens())) kv.push_back({"arrow", ME->isArrow()});
            return node("mcall", std::move(kv), e);
        }
        if (auto *x = dyn_cast<CallExpr>(e)) {
            const FunctionDecl *FD = x->getDirectCallee();
            std::string callee = FD ? FD->getQualifiedNameAsString() : "";
            if (!FD) {
                // calls inside templates that are resolved only at instantiation: keep their shape (receiver, member name, written
                // qualified name) instead of an opaque callee expression
                const Expr *ce = x->getCallee()->IgnoreParens();
                if (auto *DM = dyn_cast<CXXDependentScopeMemberExpr>(ce)) {
                    if (!DM->isImplicitAccess()) {
                        KV kv{{"obj", E(DM->getBase())}, {"callee", DM->getMember().getAsString()}, {"args", args(x->arguments())},
                              {"t", ty(x->getType())}, {"ot", ty(DM->getBaseType())}, {"arrow", DM->isArrow()}, {"dependent", true}};
                        return node("mcall", std::move(kv), e);
                    }
                } else if (auto *UM = dyn_cast<UnresolvedMemberExpr>(ce)) {
                    if (!UM->isImplicitAccess()) {
                        KV kv{{"obj", E(UM->getBase())}, {"callee", UM->getMemberName().getAsString()}, {"args", args(x->arguments())},
                              {"t", ty(x->getType())}, {"ot", ty(UM->getBaseType())}, {"arrow", UM->isArrow()}, {"dependent", true}};
                        return node("mcall", std::move(kv), e);
                    }
                } else if (auto *UL = dyn_cast<UnresolvedLookupExpr>(ce)) {
                    if (UL->getQualifier()) {
                        llvm::raw_string_ostream os(callee);
                        UL->getQualifier()->print(os, PP);
                        os << UL->getName().getAsString();
                        os.flush();
                    } else if (UL->getNumDecls() == 1) {
                        const NamedDecl *D = (*UL->decls_begin())->getUnderlyingDecl();
                        if (isa<FunctionTemplateDecl>(D) || isa<FunctionDecl>(D)) callee = D->getQualifiedNameAsString();
                    }
                    if (!callee.empty()) {
                        KV kv{{"callee", callee}, {"args", args(x->arguments())}, {"t", ty(x->getType())}, {"dependent", true}};
                        return node("call", std::move(kv), e);
                    }
                }
            }
            KV kv{{"callee", callee}, {"args", args(x->arguments())}, {"t", ty(x->getType())}};
            if (callee.empty()) kv.push_back({"calleeExpr", E(x->getCallee())});
            calleeInfo(FD, kv);
            std::string ta = targs(FD);
            if (!ta.empty()) kv.push_back({"targs", ta});
            return node("call", std::move(kv), e);
        }
        if (auto *x = dyn_cast<CXXConstructExpr>(e)) {
            if (x->getNumArgs() == 1 && x->getConstructor()->isCopyOrMoveConstructor()) return E(x->getArg(0));
            KV kv{{"type", ty(x->getType())}, {"ctor", x->getConstructor()->getQualifiedNameAsString()}, {"args", args(x->arguments())}};
            calleeInfo(x->getConstructor(), kv);
            return node("construct", std::move(kv), e);
        }
        if (auto *x = dyn_cast<CXXNewExpr>(e))
            return node("new", {{"type", ty(x->getAllocatedType())}, {"init", E(x->getInitializer())}}, e);
        if (auto *x = dyn_cast<CXXDeleteExpr>(e)) return node("delete", {{"e", E(x->getArgument())}}, e);
        if (auto *x = dyn_cast<CXXFunctionalCastExpr>(e)) {
            // T(x) / T{x}: keep the target type when it changes the value category of arithmetic
            if (x->getType()->isArithmeticType())
                return node("cast", {{"type", ty(x->getTypeAsWritten())}, {"e", E(x->getSubExpr())}}, e);
            return E(x->getSubExpr());
        }
        if (auto *x = dyn_cast<CXXDynamicCastExpr>(e))
            return node("dyncast", {{"type", ty(x->getTypeAsWritten())}, {"e", E(x->getSubExpr())}}, e);
        if (auto *x = dyn_cast<ExplicitCastExpr>(e))
            return node("cast", {{"type", ty(x->getTypeAsWritten())}, {"e", E(x->getSubExpr())}}, e);
        if (auto *x = dyn_cast<InitListExpr>(e)) {
            if (!x->isSemanticForm() && x->getSemanticForm()) x = x->getSemanticForm();
            J::Array a;
            for (auto *I : x->inits()) a.push_back(E(I));
            if (a.size() == 1 && x->getType()->isRecordType() && isa<InitListExpr>(x->getInit(0)->IgnoreImplicit()))
                return E(x->getInit(0));
            J::Array fn;
            if (auto *RD = x->getType()->getAsCXXRecordDecl())
                if (RD->isAggregate())
                    for (auto *F : RD->fields()) fn.push_back(F->getNameAsString());
            return node("initlist", {{"type", ty(x->getType())}, {"items", J::Value(std::move(a))}, {"fields", J::Value(std::move(fn))}}, e);
        }
        if (auto *x = dyn_cast<LambdaExpr>(e)) return lambda(x);
        if (auto *x = dyn_cast<CXXThrowExpr>(e))
            return node("throw", {{"e", E(x->getSubExpr())},
                                  {"type", x->getSubExpr() ? ty(x->getSubExpr()->getType()) : std::string("rethrow")}},
                        e);
        if (auto *x = dyn_cast<CXXScalarValueInitExpr>(e)) return node("zeroinit", {{"type", ty(x->getType())}});
        if (auto *x = dyn_cast<ImplicitValueInitExpr>(e)) return node("zeroinit", {{"type", ty(x->getType())}});
        if (auto *x = dyn_cast<UnaryExprOrTypeTraitExpr>(e)) {
            KV kv{{"src", src(x)}};
            Expr::EvalResult r;
            if (!x->isValueDependent() && !x->isTypeDependent() && x->EvaluateAsInt(r, C)) kv.push_back({"v", (int64_t)r.Val.getInt().getExtValue()});
            return node("sizeof", std::move(kv));
        }
        if (auto *x = dyn_cast<CXXTypeidExpr>(e)) return node("typeid", {{"src", src(x)}});
        if (auto *x = dyn_cast<PredefinedExpr>(e)) return node("str", {{"v", std::string("__func__")}});
        if (auto *x = dyn_cast<ArrayInitLoopExpr>(e)) return E(x->getCommonExpr());
        if (auto *x = dyn_cast<CXXNoexceptExpr>(e)) return node("bool", {{"v", x->getValue()}});
        return node("unk", {{"cls", std::string(e->getStmtClassName())}, {"src", src(e)}}, e);
    }

    J::Value varDecl(const VarDecl *V, const Stmt *s) {
        KV kv{{"name", V->getNameAsString()}, {"type", ty(V->getType())}, {"id", declId(V)}, {"init", E(V->getInit())}};
        if (V->isStaticLocal()) kv.push_back({"static", true});
        if (V->getType()->isReferenceType()) kv.push_back({"isref", true});
        if (V->getType().isConstQualified()) kv.push_back({"const", true});
        if (auto *DD = dyn_cast<DecompositionDecl>(V)) {
            J::Array b;
            for (auto *B : DD->bindings()) b.push_back(J::Object{{"name", B->getNameAsString()}, {"id", declId(B)}, {"type", ty(B->getType())}});
            kv.push_back({"bindings", J::Value(std::move(b))});
        }
        return node("var", std::move(kv), s);
    }

    J::Value S(const Stmt *s) {
        if (!s) return nullptr;
        if (auto *x = dyn_cast<CompoundStmt>(s)) {
            J::Array a;
            for (auto *c : x->body()) a.push_back(S(c));
            return node("block", {{"body", J::Value(std::move(a))}, {"endln", line(x->getRBracLoc())}}, s);
        }
        if (auto *x = dyn_cast<DeclStmt>(s)) {
            J::Array a;
            for (auto *D : x->decls())
                if (auto *V = dyn_cast<VarDecl>(D)) a.push_back(varDecl(V, s));
            return node("decls", {{"d", J::Value(std::move(a))}}, s);
        }
        if (auto *x = dyn_cast<IfStmt>(s)) {
            KV kv{{"init", S(x->getInit())}, {"c", E(x->getCond())}, {"t", S(x->getThen())}, {"e", S(x->getElse())}};
            if (x->getConditionVariable()) kv.push_back({"cv", varDecl(x->getConditionVariable(), s)});
            if (x->isConstexpr()) kv.push_back({"constexpr", true});
            return node("if", std::move(kv), s);
        }
        if (auto *x = dyn_cast<ReturnStmt>(s)) return node("return", {{"e", E(x->getRetValue())}}, s);
        if (auto *x = dyn_cast<ForStmt>(s)) {
            KV kv{{"init", S(x->getInit())}, {"c", E(x->getCond())}, {"inc", E(x->getInc())}, {"body", S(x->getBody())}};
            if (x->getConditionVariable()) kv.push_back({"cv", varDecl(x->getConditionVariable(), s)});
            return node("for", std::move(kv), s);
        }
        if (auto *x = dyn_cast<CXXForRangeStmt>(s))
            return node("forrange", {{"var", varDecl(x->getLoopVariable(), s)},
                                     {"range", E(x->getRangeInit())},
                                     {"rt", ty(x->getRangeInit()->getType())},
                                     {"body", S(x->getBody())}},
                        s);
        if (auto *x = dyn_cast<WhileStmt>(s)) {
            KV kv{{"c", E(x->getCond())}, {"body", S(x->getBody())}};
            if (x->getConditionVariable()) kv.push_back({"cv", varDecl(x->getConditionVariable(), s)});
            return node("while", std::move(kv), s);
        }
        if (auto *x = dyn_cast<DoStmt>(s)) return node("do", {{"c", E(x->getCond())}, {"body", S(x->getBody())}}, s);
        if (isa<ContinueStmt>(s)) return node("continue", {}, s);
        if (isa<BreakStmt>(s)) return node("break", {}, s);
        if (isa<NullStmt>(s)) return node("null", {}, s);
        if (auto *x = dyn_cast<SwitchStmt>(s)) {
            KV kv{{"c", E(x->getCond())}, {"body", S(x->getBody())}, {"init", S(x->getInit())}};
            return node("switch", std::move(kv), s);
        }
        if (auto *x = dyn_cast<CaseStmt>(s)) return node("case", {{"v", E(x->getLHS())}, {"s", S(x->getSubStmt())}}, s);
        if (auto *x = dyn_cast<DefaultStmt>(s)) return node("default", {{"s", S(x->getSubStmt())}}, s);
        if (auto *x = dyn_cast<AttributedStmt>(s)) return S(x->getSubStmt());
        if (auto *x = dyn_cast<CXXTryStmt>(s)) {
            J::Array h;
            for (unsigned i = 0; i < x->getNumHandlers(); ++i) {
                auto *H = x->getHandler(i);
                J::Object o;
                o["type"] = H->getCaughtType().isNull() ? std::string("...") : ty(H->getCaughtType());
                if (H->getExceptionDecl()) {
                    o["var"] = H->getExceptionDecl()->getNameAsString();
                    o["id"] = declId(H->getExceptionDecl());
                }
                o["ln"] = line(H->getBeginLoc());
                o["body"] = S(H->getHandlerBlock());
                h.push_back(std::move(o));
            }
            return node("try", {{"body", S(x->getTryBlock())}, {"handlers", J::Value(std::move(h))}}, s);
        }
        if (auto *x = dyn_cast<Expr>(s)) return node("expr", {{"e", E(x)}}, s);
        return node("unkstmt", {{"cls", std::string(s->getStmtClassName())}}, s);
    }
};

struct V : RecursiveASTVisitor<V> {
    ASTContext &C;
    Ex ex;
    J::Array functions, records, globals, enums;
    explicit V(ASTContext &C) : C(C), ex(C) {}
    bool shouldVisitTemplateInstantiations() const { return false; }
    bool shouldVisitImplicitCode() const { return false; }

    bool VisitFunctionDecl(FunctionDecl *F) {
        if (!F->doesThisDeclarationHaveABody() || !ex.inRoot(F->getLocation())) return true;
        if (auto *M = dyn_cast<CXXMethodDecl>(F))
            if (M->getParent()->isLambda()) return true;  // emitted nested
        J::Object o;
        o["name"] = F->getQualifiedNameAsString();
        o["file"] = ex.file(F->getLocation());
        o["ln"] = ex.line(F->getBeginLoc());
        o["endln"] = ex.line(F->getEndLoc());
        o["ret"] = ex.ty(F->getReturnType());
        o["sig"] = ex.sig(F);
        J::Array ps;
        for (auto *P : F->parameters())
            ps.push_back(J::Object{{"name", P->getNameAsString()}, {"type", ex.ty(P->getType())}, {"id", ex.declId(P)}});
        o["params"] = std::move(ps);
        std::string kind = "function";
        if (auto *M = dyn_cast<CXXMethodDecl>(F)) {
            kind = "method";
            o["cls"] = M->getParent()->getQualifiedNameAsString();
            o["const"] = M->isConst();
            o["static"] = M->isStatic();
            o["virtual"] = M->isVirtual();
            J::Array ov;
            for (auto *B : M->overridden_methods()) ov.push_back(B->getQualifiedNameAsString());
            o["overrides"] = std::move(ov);
        }
        if (auto *CD = dyn_cast<CXXConstructorDecl>(F)) {
            kind = "ctor";
            J::Array inits;
            for (auto *I : CD->inits()) {
                if (!I->isWritten()) continue;
                J::Object io;
                if (I->isAnyMemberInitializer()) io["member"] = I->getAnyMember()->getNameAsString();
                else if (I->isBaseInitializer()) io["base"] = ex.ty(QualType(I->getBaseClass(), 0));
                io["init"] = ex.E(I->getInit());
                inits.push_back(std::move(io));
            }
            o["inits"] = std::move(inits);
        }
        if (isa<CXXDestructorDecl>(F)) kind = "dtor";
        o["kind"] = kind;
        if (auto *FPT = F->getType()->getAs<FunctionProtoType>()) o["noexcept"] = FPT->isNothrow();
        o["templated"] = F->isTemplated();
        o["body"] = ex.S(F->getBody());
        functions.push_back(std::move(o));
        return true;
    }
    bool VisitCXXRecordDecl(CXXRecordDecl *R) {
        if (!R->isThisDeclarationADefinition() || R->isLambda() || !ex.inRoot(R->getLocation())) return true;
        J::Object o;
        o["name"] = R->getQualifiedNameAsString();
        o["file"] = ex.file(R->getLocation());
        o["ln"] = ex.line(R->getLocation());
        J::Array bases;
        for (auto &B : R->bases()) bases.push_back(ex.ty(B.getType()));
        o["bases"] = std::move(bases);
        J::Array fields;
        for (auto *D : R->decls()) {
            if (auto *F = dyn_cast<FieldDecl>(D)) {
                fields.push_back(J::Object{{"name", F->getNameAsString()},
                                           {"type", ex.ty(F->getType())},
                                           {"ln", ex.line(F->getLocation())},
                                           {"static", false},
                                           {"init", ex.E(F->getInClassInitializer())}});
            } else if (auto *VD = dyn_cast<VarDecl>(D)) {
                fields.push_back(J::Object{{"name", VD->getNameAsString()},
                                           {"type", ex.ty(VD->getType())},
                                           {"ln", ex.line(VD->getLocation())},
                                           {"static", true},
                                           {"const", VD->getType().isConstQualified() || VD->isConstexpr()},
                                           {"init", ex.E(VD->getInit())}});
            }
        }
        o["fields"] = std::move(fields);
        J::Array methods;
        for (auto *M : R->methods()) {
            if (M->isImplicit()) continue;
            methods.push_back(J::Object{{"name", M->getNameAsString()},
                                        {"virtual", M->isVirtual()},
                                        {"pure", M->isPure()},
                                        {"const", M->isConst()},
                                        {"static", M->isStatic()},
                                        {"access", (int64_t)M->getAccess()},
                                        {"ln", ex.line(M->getLocation())}});
        }
        o["methods"] = std::move(methods);
        o["abstract"] = R->isAbstract();
        records.push_back(std::move(o));
        return true;
    }
    bool VisitEnumDecl(EnumDecl *E) {
        if (!E->isThisDeclarationADefinition() || !ex.inRoot(E->getLocation())) return true;
        J::Array cs;
        for (auto *K : E->enumerators()) cs.push_back(K->getNameAsString());
        enums.push_back(J::Object{{"name", E->getQualifiedNameAsString()}, {"constants", std::move(cs)}, {"file", ex.file(E->getLocation())}});
        return true;
    }
    bool VisitVarDecl(VarDecl *D) {
        if (isa<ParmVarDecl>(D) || !D->hasGlobalStorage() || !ex.inRoot(D->getLocation())) return true;
        if (!D->isThisDeclarationADefinition() && !D->isStaticDataMember()) return true;
        J::Object o;
        o["name"] = D->getQualifiedNameAsString();
        o["file"] = ex.file(D->getLocation());
        o["ln"] = ex.line(D->getLocation());
        o["type"] = ex.ty(D->getType());
        o["const"] = D->getType().isConstQualified() || D->isConstexpr();
        o["staticLocal"] = D->isStaticLocal();
        o["member"] = D->isStaticDataMember();
        o["tls"] = D->getTLSKind() != VarDecl::TLS_None;
        o["init"] = ex.E(D->getInit());
        // compile-time value of integral constants (`constexpr int n = sizeof(a) / sizeof(a[0]);`)
        if ((D->isConstexpr() || D->getType().isConstQualified()) && D->getType()->isIntegralOrEnumerationType() && D->getInit() &&
            !D->getInit()->isValueDependent() && !D->getType()->isDependentType())
            if (const APValue *V = D->evaluateValue())
                if (V->isInt()) o["cv"] = (int64_t)V->getInt().getExtValue();
        globals.push_back(std::move(o));
        return true;
    }
};

struct Cons : ASTConsumer {
    std::string tu;
    explicit Cons(std::string tu) : tu(std::move(tu)) {}
    void HandleTranslationUnit(ASTContext &C) override {
        if (C.getDiagnostics().hasErrorOccurred()) {
            llvm::errs() << "bx: parse errors in " << tu << "\n";
        }
        V v(C);
        v.TraverseDecl(C.getTranslationUnitDecl());
        J::Object o;
        o["tu"] = tu;
        o["errors"] = C.getDiagnostics().hasErrorOccurred();
        o["functions"] = std::move(v.functions);
        o["records"] = std::move(v.records);
        o["globals"] = std::move(v.globals);
        o["enums"] = std::move(v.enums);
        std::error_code EC;
        if (Out == "-") {
            llvm::outs() << J::Value(std::move(o)) << "\n";
        } else {
            llvm::raw_fd_ostream os(Out, EC);
            os << J::Value(std::move(o)) << "\n";
        }
    }
};
struct Act : ASTFrontendAction {
    std::unique_ptr<ASTConsumer> CreateASTConsumer(CompilerInstance &, StringRef f) override {
        return std::make_unique<Cons>(f.str());
    }
};
}  // namespace

int main(int argc, const char **argv) {
    auto P = CommonOptionsParser::create(argc, argv, Cat);
    if (!P) {
        llvm::errs() << P.takeError();
        return 2;
    }
    ClangTool T(P->getCompilations(), P->getSourcePathList());
    return T.run(newFrontendActionFactory<Act>().get());
}
